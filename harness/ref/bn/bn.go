// Package bn is the reference model of the SM9 pairing groups (GM/T 0044.5):
// exact math/big arithmetic in Fp, Fp2 = Fp[u]/(u^2+2) and
// Fp12 = Fp[w]/(w^12+2) (the tower u = w^6, v = w^3 flattened), affine
// chord-and-tangent group law with double-and-add on
//
//	G1:  y^2 = x^3 + 5      over Fp
//	G2:  y^2 = x^3 + 5u     over Fp2   (the sextic twist)
//
// the GM/T 0044 byte encodings and strict decoders. It contains no pairing: the
// pairing is decided by laws and by published values (see wl/c09). Nothing here
// imports the library under test.
package bn

import (
	"errors"
	"math/big"
)

func hx(s string) *big.Int {
	v, ok := new(big.Int).SetString(s, 16)
	if !ok {
		panic("ref/bn: bad constant")
	}
	return v
}

// Parameters of GM/T 0044.5 section 3 / annex A.
var (
	// T is the BN parameter t; P = 36t^4+36t^3+24t^2+6t+1, N = 36t^4+36t^3+18t^2+6t+1.
	T = hx("600000000058F98A")
	P = hx("B640000002A3A6F1D603AB4FF58EC74521F2934B1A7AEEDBE56F9B27E351457D")
	N = hx("B640000002A3A6F1D603AB4FF58EC74449F2934B18EA8BEEE56EE19CD69ECF25")

	// generator P1 of G1
	P1 = G1{X: hx("93DE051D62BF718FF5ED0704487D01D6E1E4086909DC3280E8C4E4817C66DDDD"),
		Y: hx("21FE8DDA4F21E607631065125C395BBC1C1C00CBFA6024350C464CD70A3EA616")}
	// generator P2 of G2; GM/T 0044 writes an Fp2 element high coefficient first: (a1, a0) = a1*u + a0
	P2 = G2{
		X: Fp2{A1: hx("85AEF3D078640C98597B6027B441A01FF1DD2C190F5E93C454806C11D8806141"),
			A0: hx("3722755292130B08D2AAB97FD34EC120EE265948D19C17ABF9B7213BAF82D65B")},
		Y: Fp2{A1: hx("17509B092E845C1266BA0D262CBEE6ED0736A96FA347C8BD856DC76B84EBEB96"),
			A0: hx("A7CF28D519BE3DA65F3170153D278FF247EFBA98A71A08116215BBA5C999A7C7")},
	}

	five = big.NewInt(5)
	// B2 = 5u, the constant of the twist
	B2 = Fp2{A1: big.NewInt(5), A0: big.NewInt(0)}
)

// ---------------------------------------------------------------- Fp

func mod(x *big.Int) *big.Int { return x.Mod(x, P) }

func fadd(a, b *big.Int) *big.Int { return mod(new(big.Int).Add(a, b)) }
func fsub(a, b *big.Int) *big.Int { return mod(new(big.Int).Sub(a, b)) }
func fmul(a, b *big.Int) *big.Int { return mod(new(big.Int).Mul(a, b)) }
func fneg(a *big.Int) *big.Int    { return mod(new(big.Int).Neg(a)) }
func finv(a *big.Int) *big.Int {
	r := new(big.Int).ModInverse(a, P)
	if r == nil {
		panic("ref/bn: inverse of zero")
	}
	return r
}

// Sqrt returns a square root of a mod p or nil.
func Sqrt(a *big.Int) *big.Int {
	r := new(big.Int).ModSqrt(new(big.Int).Mod(a, P), P)
	if r == nil {
		return nil
	}
	if fmul(r, r).Cmp(new(big.Int).Mod(a, P)) != 0 {
		return nil
	}
	return r
}

// InField reports 0 <= v < p.
func InField(v *big.Int) bool { return v.Sign() >= 0 && v.Cmp(P) < 0 }

// Bytes32 returns v as 32 big-endian bytes.
func Bytes32(v *big.Int) []byte { return v.FillBytes(make([]byte, 32)) }

// ---------------------------------------------------------------- Fp2

// Fp2 is A1*u + A0 with u^2 = -2.
type Fp2 struct{ A1, A0 *big.Int }

func NewFp2(a1, a0 *big.Int) Fp2 {
	return Fp2{A1: new(big.Int).Mod(a1, P), A0: new(big.Int).Mod(a0, P)}
}

func (a Fp2) IsZero() bool       { return a.A1.Sign() == 0 && a.A0.Sign() == 0 }
func (a Fp2) Equal(b Fp2) bool   { return a.A1.Cmp(b.A1) == 0 && a.A0.Cmp(b.A0) == 0 }
func (a Fp2) Add(b Fp2) Fp2      { return Fp2{fadd(a.A1, b.A1), fadd(a.A0, b.A0)} }
func (a Fp2) Sub(b Fp2) Fp2      { return Fp2{fsub(a.A1, b.A1), fsub(a.A0, b.A0)} }
func (a Fp2) Neg() Fp2           { return Fp2{fneg(a.A1), fneg(a.A0)} }
func (a Fp2) MulInt(k int64) Fp2 { return Fp2{fmul(a.A1, big.NewInt(k)), fmul(a.A0, big.NewInt(k))} }

// Mul: (a1 u + a0)(b1 u + b0) = (a1 b0 + a0 b1) u + (a0 b0 - 2 a1 b1)
func (a Fp2) Mul(b Fp2) Fp2 {
	hi := new(big.Int).Mul(a.A1, b.A0)
	hi.Add(hi, new(big.Int).Mul(a.A0, b.A1))
	lo := new(big.Int).Mul(a.A0, b.A0)
	t := new(big.Int).Mul(a.A1, b.A1)
	lo.Sub(lo, t.Lsh(t, 1))
	return Fp2{mod(hi), mod(lo)}
}

func (a Fp2) Sqr() Fp2 { return a.Mul(a) }

// Inv: 1/(a1 u + a0) = (a0 - a1 u) / (a0^2 + 2 a1^2)
func (a Fp2) Inv() Fp2 {
	n := new(big.Int).Mul(a.A0, a.A0)
	t := new(big.Int).Mul(a.A1, a.A1)
	n.Add(n, t.Lsh(t, 1))
	ni := finv(mod(n))
	return Fp2{fmul(fneg(a.A1), ni), fmul(a.A0, ni)}
}

// Sqrt returns a square root of a in Fp2, ok=false if a is not a square.
// Method: with norm n = a0^2 + 2 a1^2 = s^2, x0^2 = (a0 ± s)/2, x1 = a1/(2 x0).
func (a Fp2) Sqrt() (Fp2, bool) {
	if a.IsZero() {
		return Fp2{new(big.Int), new(big.Int)}, true
	}
	check := func(r Fp2) (Fp2, bool) {
		if r.Sqr().Equal(a) {
			return r, true
		}
		return Fp2{}, false
	}
	if a.A1.Sign() == 0 {
		if r := Sqrt(a.A0); r != nil {
			return check(Fp2{new(big.Int), r})
		}
		// a0 = (x1 u)^2 = -2 x1^2
		q := fmul(fneg(a.A0), finv(big.NewInt(2)))
		if r := Sqrt(q); r != nil {
			return check(Fp2{r, new(big.Int)})
		}
		return Fp2{}, false
	}
	n := new(big.Int).Mul(a.A0, a.A0)
	t := new(big.Int).Mul(a.A1, a.A1)
	n.Add(n, t.Lsh(t, 1))
	s := Sqrt(mod(n))
	if s == nil {
		return Fp2{}, false
	}
	half := finv(big.NewInt(2))
	for _, c := range []*big.Int{fadd(a.A0, s), fsub(a.A0, s)} {
		x0 := Sqrt(fmul(c, half))
		if x0 == nil || x0.Sign() == 0 {
			continue
		}
		x1 := fmul(a.A1, finv(fmul(x0, big.NewInt(2))))
		if r, ok := check(Fp2{x1, x0}); ok {
			return r, true
		}
	}
	return Fp2{}, false
}

// ---------------------------------------------------------------- G1

// G1 is an affine point of y^2 = x^3 + 5 over Fp, or the point at infinity.
type G1 struct {
	X, Y *big.Int
	Inf  bool
}

var G1Infinity = G1{Inf: true}

// G1RHS returns x^3 + 5.
func G1RHS(x *big.Int) *big.Int { return fadd(fmul(fmul(x, x), x), five) }

// G1OnCurve reports whether (x, y), both in [0,p), satisfies the equation.
func G1OnCurve(x, y *big.Int) bool {
	return InField(x) && InField(y) && fmul(y, y).Cmp(G1RHS(x)) == 0
}

func (p G1) Equal(q G1) bool {
	if p.Inf || q.Inf {
		return p.Inf == q.Inf
	}
	return p.X.Cmp(q.X) == 0 && p.Y.Cmp(q.Y) == 0
}

func (p G1) Neg() G1 {
	if p.Inf {
		return p
	}
	return G1{X: new(big.Int).Set(p.X), Y: fneg(p.Y)}
}

// Add is the chord-and-tangent law with every exceptional case.
func (p G1) Add(q G1) G1 {
	if p.Inf {
		return q
	}
	if q.Inf {
		return p
	}
	var lam *big.Int
	if p.X.Cmp(q.X) == 0 {
		if fadd(p.Y, q.Y).Sign() == 0 {
			return G1Infinity
		}
		lam = fmul(fmul(fmul(p.X, p.X), big.NewInt(3)), finv(fadd(p.Y, p.Y)))
	} else {
		lam = fmul(fsub(q.Y, p.Y), finv(fsub(q.X, p.X)))
	}
	x3 := fsub(fsub(fmul(lam, lam), p.X), q.X)
	y3 := fsub(fmul(lam, fsub(p.X, x3)), p.Y)
	return G1{X: x3, Y: y3}
}

func (p G1) Double() G1 { return p.Add(p) }

// Mul returns [k]p for any non-negative integer k (k is not reduced first).
func (p G1) Mul(k *big.Int) G1 {
	if k.Sign() < 0 {
		panic("ref/bn: negative scalar")
	}
	r := G1Infinity
	for i := k.BitLen() - 1; i >= 0; i-- {
		r = r.Double()
		if k.Bit(i) == 1 {
			r = r.Add(p)
		}
	}
	return r
}

// Marshal is the 64-byte form x||y; the library documents 64 zero bytes for the
// point at infinity ((0,0) is not on the curve, so this is unambiguous).
func (p G1) Marshal() []byte {
	if p.Inf {
		return make([]byte, 64)
	}
	return append(Bytes32(p.X), Bytes32(p.Y)...)
}

// MarshalUncompressed is 04||x||y.
func (p G1) MarshalUncompressed() []byte { return append([]byte{4}, p.Marshal()...) }

// MarshalCompressed is (02|y mod 2)||x; not defined for infinity.
func (p G1) MarshalCompressed() []byte {
	if p.Inf {
		panic("ref/bn: compressed infinity")
	}
	return append([]byte{byte(2 | p.Y.Bit(0))}, Bytes32(p.X)...)
}

var ErrEncoding = errors.New("ref/bn: invalid encoding")

// DecodeG1 is the strict decoder of exactly 64 bytes.
func DecodeG1(b []byte) (G1, error) {
	if len(b) != 64 {
		return G1{}, ErrEncoding
	}
	x, y := new(big.Int).SetBytes(b[:32]), new(big.Int).SetBytes(b[32:])
	if x.Sign() == 0 && y.Sign() == 0 {
		return G1Infinity, nil
	}
	if !G1OnCurve(x, y) {
		return G1{}, ErrEncoding
	}
	return G1{X: x, Y: y}, nil
}

// DecodeG1Compressed is the strict decoder of exactly 33 bytes.
func DecodeG1Compressed(b []byte) (G1, error) {
	if len(b) != 33 || (b[0] != 2 && b[0] != 3) {
		return G1{}, ErrEncoding
	}
	x := new(big.Int).SetBytes(b[1:])
	if !InField(x) {
		return G1{}, ErrEncoding
	}
	y := Sqrt(G1RHS(x))
	if y == nil || y.Sign() == 0 { // y = 0 cannot occur: the group order is odd
		return G1{}, ErrEncoding
	}
	if y.Bit(0) != uint(b[0]&1) {
		y = fneg(y)
	}
	return G1{X: x, Y: y}, nil
}

// ---------------------------------------------------------------- G2

// G2 is an affine point of the twist y^2 = x^3 + 5u over Fp2, or infinity.
// Not every point of the twist lies in the order-N subgroup (the twist has
// N*(2P-N) points); InSubgroup tests that.
type G2 struct {
	X, Y Fp2
	Inf  bool
}

var G2Infinity = G2{Inf: true}

func G2RHS(x Fp2) Fp2 { return x.Sqr().Mul(x).Add(B2) }

func G2OnCurve(x, y Fp2) bool {
	return InField(x.A0) && InField(x.A1) && InField(y.A0) && InField(y.A1) && y.Sqr().Equal(G2RHS(x))
}

func (p G2) Equal(q G2) bool {
	if p.Inf || q.Inf {
		return p.Inf == q.Inf
	}
	return p.X.Equal(q.X) && p.Y.Equal(q.Y)
}

func (p G2) Neg() G2 {
	if p.Inf {
		return p
	}
	return G2{X: p.X, Y: p.Y.Neg()}
}

func (p G2) Add(q G2) G2 {
	if p.Inf {
		return q
	}
	if q.Inf {
		return p
	}
	var lam Fp2
	if p.X.Equal(q.X) {
		if p.Y.Add(q.Y).IsZero() {
			return G2Infinity
		}
		lam = p.X.Sqr().MulInt(3).Mul(p.Y.Add(p.Y).Inv())
	} else {
		lam = q.Y.Sub(p.Y).Mul(q.X.Sub(p.X).Inv())
	}
	x3 := lam.Sqr().Sub(p.X).Sub(q.X)
	y3 := lam.Mul(p.X.Sub(x3)).Sub(p.Y)
	return G2{X: x3, Y: y3}
}

func (p G2) Double() G2 { return p.Add(p) }

func (p G2) Mul(k *big.Int) G2 {
	if k.Sign() < 0 {
		panic("ref/bn: negative scalar")
	}
	r := G2Infinity
	for i := k.BitLen() - 1; i >= 0; i-- {
		r = r.Double()
		if k.Bit(i) == 1 {
			r = r.Add(p)
		}
	}
	return r
}

// InSubgroup reports [N]p = infinity.
func (p G2) InSubgroup() bool { return p.Mul(N).Inf }

// Marshal is the 128-byte form x.a1||x.a0||y.a1||y.a0 (128 zero bytes = infinity).
func (p G2) Marshal() []byte {
	if p.Inf {
		return make([]byte, 128)
	}
	out := append(Bytes32(p.X.A1), Bytes32(p.X.A0)...)
	out = append(out, Bytes32(p.Y.A1)...)
	return append(out, Bytes32(p.Y.A0)...)
}

func (p G2) MarshalUncompressed() []byte { return append([]byte{4}, p.Marshal()...) }

// MarshalCompressed is (02 | y.a0 mod 2)||x.a1||x.a0; not defined for infinity.
func (p G2) MarshalCompressed() []byte {
	if p.Inf {
		panic("ref/bn: compressed infinity")
	}
	out := append([]byte{byte(2 | p.Y.A0.Bit(0))}, Bytes32(p.X.A1)...)
	return append(out, Bytes32(p.X.A0)...)
}

// DecodeG2 is the strict decoder of exactly 128 bytes for points of the twist
// (subgroup membership is not part of it; see InSubgroup).
func DecodeG2(b []byte) (G2, error) {
	if len(b) != 128 {
		return G2{}, ErrEncoding
	}
	x := Fp2{new(big.Int).SetBytes(b[:32]), new(big.Int).SetBytes(b[32:64])}
	y := Fp2{new(big.Int).SetBytes(b[64:96]), new(big.Int).SetBytes(b[96:])}
	if x.IsZero() && y.IsZero() {
		return G2Infinity, nil
	}
	if !G2OnCurve(x, y) {
		return G2{}, ErrEncoding
	}
	return G2{X: x, Y: y}, nil
}

// ErrAmbiguous: the compressed form cannot tell y from -y because y.a0 = 0.
var ErrAmbiguous = errors.New("ref/bn: compressed encoding with y.a0 = 0 is ambiguous")

// DecodeG2Compressed is the strict decoder of exactly 65 bytes. When the two
// roots have y.a0 = 0 the sign bit carries no information: prefix 03 is then
// not the encoding of any point (ErrEncoding) and prefix 02 is the encoding of
// both roots (the returned error is ErrAmbiguous, with one of the roots).
func DecodeG2Compressed(b []byte) (G2, error) {
	if len(b) != 65 || (b[0] != 2 && b[0] != 3) {
		return G2{}, ErrEncoding
	}
	x := Fp2{new(big.Int).SetBytes(b[1:33]), new(big.Int).SetBytes(b[33:])}
	if !InField(x.A0) || !InField(x.A1) {
		return G2{}, ErrEncoding
	}
	y, ok := G2RHS(x).Sqrt()
	if !ok || y.IsZero() {
		return G2{}, ErrEncoding
	}
	if y.A0.Sign() == 0 {
		if b[0] == 3 {
			return G2{}, ErrEncoding
		}
		return G2{X: x, Y: y}, ErrAmbiguous
	}
	if y.A0.Bit(0) != uint(b[0]&1) {
		y = y.Neg()
	}
	return G2{X: x, Y: y}, nil
}

// ---------------------------------------------------------------- Fp12

// Fp12 is an element of Fp[w]/(w^12 + 2): C[i] is the coefficient of w^i.
// The library's tower is u^2 = -2, v^2 = u, w^3 = v, hence u = w^6, v = w^3 and
// w^12 = -2. The 384-byte GM/T 0044 / library order of the twelve coefficients
// is, for value = x w^2 + y w + z, x = x.x v + x.y, x.x = x.x.x u + x.x.y:
// x.x.x, x.x.y, x.y.x, x.y.y, y.x.x, ... , z.y.y  =  powers gtOrder below.
type Fp12 struct{ C [12]*big.Int }

var gtOrder = [12]int{11, 5, 8, 2, 10, 4, 7, 1, 9, 3, 6, 0}

func Fp12One() Fp12 {
	var r Fp12
	for i := range r.C {
		r.C[i] = new(big.Int)
	}
	r.C[0].SetInt64(1)
	return r
}

// Fp12FromBytes is the strict decoder of exactly 384 bytes (every coefficient < p).
func Fp12FromBytes(b []byte) (Fp12, error) {
	var r Fp12
	if len(b) != 384 {
		return r, ErrEncoding
	}
	for i := 0; i < 12; i++ {
		v := new(big.Int).SetBytes(b[32*i : 32*i+32])
		if !InField(v) {
			return r, ErrEncoding
		}
		r.C[gtOrder[i]] = v
	}
	return r, nil
}

func (a Fp12) Bytes() []byte {
	out := make([]byte, 0, 384)
	for i := 0; i < 12; i++ {
		out = append(out, Bytes32(a.C[gtOrder[i]])...)
	}
	return out
}

func (a Fp12) Equal(b Fp12) bool {
	for i := range a.C {
		if a.C[i].Cmp(b.C[i]) != 0 {
			return false
		}
	}
	return true
}

func (a Fp12) IsOne() bool { return a.Equal(Fp12One()) }

// Mul is schoolbook polynomial multiplication reduced with w^12 = -2.
func (a Fp12) Mul(b Fp12) Fp12 {
	var acc [23]*big.Int
	for i := range acc {
		acc[i] = new(big.Int)
	}
	t := new(big.Int)
	for i := 0; i < 12; i++ {
		if a.C[i].Sign() == 0 {
			continue
		}
		for j := 0; j < 12; j++ {
			acc[i+j].Add(acc[i+j], t.Mul(a.C[i], b.C[j]))
		}
	}
	var r Fp12
	for i := 0; i < 12; i++ {
		if i+12 < 23 {
			t.Lsh(acc[i+12], 1)
			acc[i].Sub(acc[i], t)
		}
		r.C[i] = mod(acc[i])
	}
	return r
}

// Exp returns a^k for any non-negative integer k by square and multiply.
func (a Fp12) Exp(k *big.Int) Fp12 {
	if k.Sign() < 0 {
		panic("ref/bn: negative exponent")
	}
	r := Fp12One()
	for i := k.BitLen() - 1; i >= 0; i-- {
		r = r.Mul(r)
		if k.Bit(i) == 1 {
			r = r.Mul(a)
		}
	}
	return r
}

// FinalExponent is (p^12 - 1)/N, the exponent of the reduced pairing.
func FinalExponent() *big.Int {
	e := new(big.Int).Exp(P, big.NewInt(12), nil)
	e.Sub(e, big.NewInt(1))
	q, r := new(big.Int).QuoRem(e, N, new(big.Int))
	if r.Sign() != 0 {
		panic("ref/bn: N does not divide p^12-1")
	}
	return q
}
