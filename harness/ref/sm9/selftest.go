package sm9

import (
	"bytes"
	"crypto/cipher"
	"encoding/hex"
	"fmt"
	"math/big"

	"verifh/ref/sm3"
	"verifh/ref/sm4"
)

// Published examples (GM/T 0044.5 annexes A-D) as carried by the repository tests
// /repo/internal/sm9/sm9_test.go. The GT values w, g1, g2, g3 are not literals in
// those tests; they were computed once and are *validated here* through the
// published outputs that hash them (K of annex C, K/C3/C2 of annex D, SKA/SB/SA of
// annex B): a wrong GT value cannot reproduce those.
const (
	vecH2Z = "4368696E65736520494253207374616E6461726481377B8FDBC2839B4FA2D0E0F8AA6853BBBE9E9C4099608F8612C6078ACD7563815AEBA217AD502DA0F48704CC73CABB3C06209BD87142E14CBD99E8BCA1680F30DADC5CD9E207AEE32209F6C3CA3EC0D800A1A42D33C73153DED47C70A39D2E8EAF5D179A1836B359A9D1D9BFC19F2EFCDB829328620962BD3FDF15F2567F58A543D25609AE943920679194ED30328BB33FD15660BDE485C6B79A7B32B013983F012DB04BA59FE88DB889321CC2373D4C0C35E84F7AB1FF33679BCA575D67654F8624EB435B838CCA77B2D0347E65D5E46964412A096F4150D8C5EDE5440DDF0656FCB663D24731E80292188A2471B8B68AA993899268499D23C89755A1A89744643CEAD40F0965F28E1CD2895C3D118E4F65C9A0E3E741B6DD52C0EE2D25F5898D60848026B7EFB8FCC1B2442ECF0795F8A81CEE99A6248F294C82C90D26BD6A814AAF475F128AEF43A128E37F80154AE6CB92CAD7D1501BAE30F750B3A9BD1F96B08E97997363911314705BFB9A9DBB97F75553EC90FBB2DDAE53C8F68E42"
	vecWC  = "8eab0cd6d0c95a6bbb7051ac848fdfb9689e5e5c486b1294557189b338b53b1d78082bb40152dc35ac774442cc6408ffd68494d9953d77bf55e30e84697f66745aaf52239e46b0373b3168bab75c32e048b5faebabfa1f7f9ba6b4c0c90e65b075f6a2d9ed54c87cddd2eaa787032320205e7ac7d7feaa8695ab2bf7f5710861247c2034ccf4a1432da1876d023ad6d74ff1678fda3af37a3d9f613cde8057988b07151bac93af48d78d86c26ea97f24e2dacc84104cce8791fe90ba61b2049caac6ab38ea07f9966173fd9bbf34aab58ee84cd3777a9fd00bbca1dc09cf8696a1040465bd723ae513c4be3ef2cfdc088a935f0b207deed7aad5ce2fc37d42034d874a4ce9b3b58765b1252a0880952b4ff3c97ea1a4cfdc67a0a0072541a03d3924eabc443b0503510b93bbcd98eb70e0192b821d14d69ccb2513a1a7421eb7a018a035e8fb61f271de1c5b3e781c63508c113b3eac537805eae164d732fad056bea27c8624d5064c9c278a193d63f6908ee558df5f5e0721317fc6e829c242"
	vecWD  = "63253798b7535975a90f202561fc54570fee88bf69e3b7a512697069e59e1f5d42d54b984af01d710ba0030c18738f6b14e4df472acaf89399228d85af117904b426dff040c49f9a43bcd7fd7d757b7d1d8d7311c08fc3b57616c5ee137785a328d19396dbdfac50eee62b1c7f994bb6f9bd9efb2221a1be1b6eb3e8f71485b4a3eef46e1b99f614d7bd7f57574ba7ebb502af0bdaba0787c5c4dbc56a344a25a06790b605cea0bbaf34776d6b1fc0198a02d05bbaac6f64a555ab2ca576f0dab405cbbf22197b94fd18d27da0b0e52c8754ee94279634691fea6e13ffd0584eaa2a94a7e2259b671896302b4275ae3e8cf2010098d5beaf19d0a6e60354e1c55c97e64f848b06d39ba8828ff59502c081d3dae68f35f7e6448db96d220a0fba02be03c51bf062b6f564ae0bfb42dca36e71d387512e3bccca3379b73ec4717652be92fb9e78ba9e1d80a156065804935742dbd2b967543011aac53333909fbf5fadec14a2fbd15248e77467442a69698246fb0314c7a8246d952219dd2144ed"
	vecG1  = "28542fb6954c84be6a5f2988a31cb6817ba0781966fa83d9673a9577d3c0c1345e27c19fc02ed9ae37f5bb7be9c03c2b87de027539ccf03e6b7d36de4ab45cd1a1abfcd30c57db0f1a838e3a8f2bf823479c978bd137230506ea6249c891049e3497477913ab89f5e2960f382b1b5c8ee09de0fa498ba95c4409d630d343da404fec93472da33a4db6599095c0cf895e3a7b993ee5e4ebe3b9ab7d7d5ff2a3d1647ba154c3e8e185dfc33657c1f128d480f3f7e3f16801208029e19434c733bb73f21693c66fc23724db26380c526223c705daf6ba18b763a68623c86a632b050f63a071a6d62ea45b59a1942dff5335d1a232c9c5664fad5d6af54c11418b0d8c8e9d8d905780d50e779067f2c4b1c8f83a8b59d735bb52af35f56730bde5ac861ccd9978617267ce4ad9789f77739e62f2e57b48c2ff26d2e90a79a1d86b939b1ca08f64712e33aeda3f44bd6cb633e0f722211e344d73ec9bbebc921427656ba584ce742a2a3ab41c15d3ef94edeb8ef74a2bdcdaaecc09aba567981f6437"
	vecG2  = "1052d6e9d13e381909dff7b2b41e13c987d0a9068423b769480dacce6a06f4925ffeb92ad870f97dc0893114da22a44dbc9e7a8b6ca31a0cf0467265a1fb48c72c5c3b37e4f2ff83db33d98c0317bcbbbbf4ac6df6b89eca58268b280045e6126ced9e2d7c9cd3d5ad630defab0b831506218037ee0f861cf9b43c78434aec380ae7bf3e1aec0cb67a03440906c7dfb3bcd4b6eeebb7e371f0094ad4a816088d98dbc791d0671caca12236cdf8f39e15aeb96faeb39606d5b04ac581746a663d00dd2b7416baa91172e89d5309d834f78c1e31b4483bb97185931bad7be1b9b57ebac0349f8544469e60c32f6075fb0468a68147ff013537df792ffce024f85710cc2b561a62b62da36aefd60850714f49170fd94a0010c6d4b651b64f3a3a5e58c9687beddcd9e4fedab16b884d1fe6dfa117b2ab821f74e0bf7acda22698592a430968f16086061904ce201847934b11ca0f9e9528f5a9d0ce8f015c9aea79934fdda6d3ab48c8571ce2354b79742aa498cb8cdde6bd1fa5946345a1a652f6"
	vecG3  = "a76b6777ad87c9124c7d7065f74808db2e80371c70471580b0c7c457a79ea5e7242fa31ff8e139fae169a16992f5f029162664ce78b333324b3bdb4c682bf9b20626d64dce603f332e9593f62b67a6b002deb6dd2e7d4fad3f33c38f202de2045327490611b2ae6f849cf779b9b74ad9ba6cf397f61326120777ce4692f85dc2adc269d1b62332582d823132a971275477a0cf1dccf4b2bf096d9110f74e2a01b1ed06502333b2ab1ae697ea34f2ef8c6e47b0431831706cb5afcd75754fa79528f65b3651e184bced030661ee4a8d670fbae26796e8cdb66f388ed6644af851885c7f924cc7cb20968aa50e8230a3b39c2bb5dd4d753d94be5dd9a4272cf8270da649cb8a63172f8fb028cd951e76215824a4ee28405d3c5e5dfda6c7ce293f4a40ac8fc5b7168fa54ad3d0b81a0f8f50c164366ccdec1c9a40dce9f0a3113335d89eaeb36f4d31bb6713064cda8835e2aa4529f42129327c6f7e8ab760654d58d17e448f6d5cbca66bd7e33810d270dd3b9436b1bf46b9a17c9d11a5a6b148"
)

func unhex(s string) []byte {
	b, err := hex.DecodeString(s)
	if err != nil {
		panic(err)
	}
	return b
}

// SelfTest validates every piece of this package against published values.
func SelfTest() error {
	if err := sm3.SelfTest(); err != nil {
		return err
	}
	if err := sm4.SelfTest(false); err != nil {
		return err
	}
	fail := func(format string, a ...any) error { return fmt.Errorf("ref/sm9 self test: "+format, a...) }
	eq := func(got []byte, want string) bool { return hex.EncodeToString(got) == want }

	if HLenBytes(N) != 40 {
		return fail("hlen = %d bytes, want 40", HLenBytes(N))
	}
	// annex A: H1(IDA||hid), H2(M||w)
	if !eq(H1([]byte("Alice\x01")), "2acc468c3926b0bdb2767e99ff26e084de9ced8dbc7d5fbf418027b667862fab") {
		return fail("H1(Alice||01)")
	}
	hA := "823c4b21e4bd2dfe1ed92c606653e996668563152fc33f55d7bfbb9bd9705adb"
	if !eq(H2(unhex(vecH2Z)), hA) {
		return fail("H2(M||w) of annex A")
	}
	sA := unhex("0473bf96923ce58b6ad0e13e9643a406d8eb98417c50ef1b29cef9adb48b6d598c856712f1c2e0968ab7769f42a99586aed139d5b8b3e15891827cc2aced9baa05")
	if !OnCurveG1(sA[1:]) {
		return fail("annex A signature point S not on the curve")
	}
	sig := EncodeSignature(unhex(hA), sA)
	if len(sig) != 104 || sig[0] != 0x30 || sig[1] != 102 || sig[2] != 0x04 || sig[3] != 32 || sig[36] != 0x03 || sig[37] != 66 || sig[38] != 0 {
		return fail("SM9Signature layout %x", sig)
	}
	if h, s, err := ParseSignature(sig); err != nil || !eq(h, hA) || !bytes.Equal(s, sA) {
		return fail("SM9Signature round trip")
	}
	for _, bad := range [][]byte{sig[:103], append(append([]byte{}, sig...), 0), {0x30, 0x81, 0x05, 0x04, 0x00, 0x03, 0x01, 0x00}} {
		if _, _, err := ParseSignature(bad); err == nil {
			return fail("ParseSignature accepted %x", bad)
		}
	}

	// G1 arithmetic and the generator: order, annex C/D master and user public keys, C1
	if !OnCurveG1(P1.Bytes()) || !G1Mul(N, P1).Inf || G1Mul(new(big.Int).Sub(N, big.NewInt(1)), P1).Inf {
		return fail("P1 is not a point of order N")
	}
	ke := hexInt("0001EDEE3778F441F8DEA3D9FA0ACC4E07EE36C93F9A08618AF4AD85CEDE1C22")
	ppub := G1Mul(ke, P1).Bytes()
	if !eq(ppub, "787ed7b8a51f3ab84e0a66003f32da5c720b17eca7137d39abc66e3c80a892ff769de61791e5adc4b9ff85a31354900b202871279a8c49dc3f220f644c57a7b1") {
		return fail("[ke]P1 of annex C")
	}
	bob := []byte("Bob")
	qb := EncUserPublic(ppub, bob, 3)
	if !eq(qb, "709d165808b0a43e2574e203fa885abcbab16a240c4c1916552e7c43d09763b8693269a6be2456f43333758274786b6051ff87b7f198da4ba1a2c6e336f51fcc") {
		return fail("QB of annex C")
	}
	qbp, _ := G1FromBytes(qb)
	cC := G1Mul(hexInt("74015F8489C01EF4270456F9E6475BFB602BDE7F33FD482AB4E3684A6722"), qbp).Bytes()
	if !eq(cC, "1edee2c3f465914491de44cefb2cb434ab02c308d9dc5e2067b4fed5aaac8a0f1c9b4c435eca35ab83bb734174c0f78fde81a53374aff3b3602bbc5e37be9a4c") {
		return fail("C = [r]QB of annex C")
	}
	// user-key scalar: [t2]( [H1]P1 + Ppub ) = [ke]P1 must hold since t2 = ke/(H1+ke)
	if t2, ok := UserScalar(ke, bob, 3); !ok || !bytes.Equal(G1Mul(t2, qbp).Bytes(), ppub) {
		return fail("UserScalar: [t2]QB != Ppub")
	}
	// annex C: key encapsulation
	if !eq(KDF(Cat(cC, unhex(vecWC), bob), 32), "4ff5cf86d2ad40c8f4bac98d76abdbde0c0e2f0a829d3f911ef5b2bce0695480") {
		return fail("K of annex C")
	}
	// annex D: encryption, XOR and SM4-ECB variants
	msg := []byte("Chinese IBE standard")
	cD := G1Mul(hexInt("AAC0541779C8FC45E3E2CB25C12B5D2576B2129AE8BB5EE2CBE5EC9E785C"), qbp).Bytes()
	c1 := "2445471164490618e1ee20528ff1d545b0f14c8bcaa44544f03dab5dac07d8ff42ffca97d57cddc05ea405f2e586feb3a6930715532b8000759f13059ed59ac0"
	if !eq(cD, c1) {
		return fail("C1 of annex D")
	}
	k := EncKey(cD, unhex(vecWD), bob, len(msg)+K2Len)
	if !eq(k, "58373260f067ec48667c21c144f8bc33cd3049788651ffd5f738003e51df31174d0e4e402fd87f4581b612f74259db574f67ece6") {
		return fail("K of annex D")
	}
	c2 := EncC2(XOR, k[:len(msg)], nil, msg)
	ct := Cat(cD, C3(c2, k[len(msg):]), c2)
	if !eq(ct, c1+"ba672387bcd6de5016a158a52bb2e7fc429197bcab70b25afee37a2b9db9f3671b5f5b0e951489682f3e64e1378cdd5da9513b1c") {
		return fail("ciphertext of annex D (XOR)")
	}
	if m, ok, _ := Open(XOR, ct[:64], ct[64:96], ct[96:], unhex(vecWD), bob); !ok || !bytes.Equal(m, msg) {
		return fail("Open of annex D (XOR)")
	}
	if _, ok, _ := Open(XOR, ct[:64], ct[64:96], ct[96:], unhex(vecWD), []byte("Bop")); ok {
		return fail("Open accepted a wrong identity")
	}
	k = EncKey(cD, unhex(vecWD), bob, 16+K2Len)
	c2 = EncC2(ECB, k[:16], nil, msg)
	ct = Cat(cD, C3(c2, k[16:]), c2)
	if !eq(ct, c1+"fd3c98dd92c44c68332675a370cceede31e0c5cd209c257601149d12b394a2bee05b6fac6f11b965268c994f00dba7a8bb00fd60583546cbdf4649250863f10a") {
		return fail("ciphertext of annex D (SM4-ECB)")
	}
	if m, ok, _ := Open(ECB, ct[:64], ct[64:96], ct[96:], unhex(vecWD), bob); !ok || !bytes.Equal(m, msg) {
		return fail("Open of annex D (ECB)")
	}
	der := EncodeCipher(ECB, append([]byte{4}, cD...), ct[64:96], ct[96:])
	if ty, a, b, c, err := ParseCipher(der); err != nil || ty.Int64() != 1 || !bytes.Equal(a[1:], cD) || !bytes.Equal(b, ct[64:96]) || !bytes.Equal(c, ct[96:]) {
		return fail("SM9Cipher round trip")
	}
	// CBC, CFB, OFB against the standard library's mode code over the reference SM4
	key := unhex("0123456789abcdeffedcba9876543210")
	iv := unhex("000102030405060708090a0b0c0d0e0f")
	blk := sm4.New(key)
	for n := 1; n <= 67; n++ {
		m := bytes.Repeat([]byte{byte(n), 0x5a, 0xc3}, 23)[:n]
		p := pkcs7(m)
		want := make([]byte, len(p))
		cipher.NewCBCEncrypter(blk, iv).CryptBlocks(want, p)
		if got := EncC2(CBC, key, iv, m); !bytes.Equal(got, Cat(iv, want)) {
			return fail("CBC len %d", n)
		}
		want = make([]byte, n)
		cipher.NewCFBEncrypter(blk, iv).XORKeyStream(want, m)
		if got := EncC2(CFB, key, iv, m); !bytes.Equal(got, Cat(iv, want)) {
			return fail("CFB len %d", n)
		}
		cipher.NewOFB(blk, iv).XORKeyStream(want, m)
		if got := EncC2(OFB, key, iv, m); !bytes.Equal(got, Cat(iv, want)) {
			return fail("OFB len %d", n)
		}
		for _, md := range Modes {
			k1 := key
			if md == XOR {
				k1 = bytes.Repeat(key, 5)[:n]
			}
			if back, ok := DecC2(md, k1, EncC2(md, k1, iv, m)); !ok || !bytes.Equal(back, m) {
				return fail("DecC2(EncC2) %v len %d", md, n)
			}
		}
	}
	// annex B: key exchange
	kx := hexInt("0002E65B0762D042F51F0D23542B13ED8CFA2E9A0E7206361E013A283905E31F")
	ppubX := G1Mul(kx, P1).Bytes()
	if !eq(ppubX, "9174542668e8f14ab273c0945c3690c66e5dd09678b86f734c4350567ed0628354e598c6bf749a3dacc9fffedd9db6866c50457cfc7aa2a4ad65c3168ff74210") {
		return fail("Ppub-e of annex B")
	}
	alice := []byte("Alice")
	qbx, _ := G1FromBytes(EncUserPublic(ppubX, bob, 2))
	qax, _ := G1FromBytes(EncUserPublic(ppubX, alice, 2))
	ra := G1Mul(hexInt("5879DD1D51E175946F23B1B41E93BA31C584AE59A426EC1046A4D03B06C8"), qbx).Bytes()
	if !eq(ra, "7cba5b19069ee66aa79d490413d11846b9ba76dd22567f809cf23b6d964bb265a9760c99cb6f706343fed05637085864958d6c90902aba7d405fbedf7b781599") {
		return fail("RA of annex B")
	}
	rb := G1Mul(hexInt("018B98C44BEF9F8537FB7D071B2C928B3BC65BD3D69E1EEE213564905634FE"), qax).Bytes()
	r := Kex(alice, bob, ra, rb, unhex(vecG1), unhex(vecG2), unhex(vecG3), 16)
	if !eq(r.SK, "c5c13a8f59a97cdeae64f16a2272a9e7") || !eq(r.SB, "3bb4bcee8139c960b4d6566db1e0d5f0b2767680e5e1bf934103e6c66e40ffee") || !eq(r.SA, "195d1b7256ba7e0e67c71202a25f8c94ff8241702c2f55d613ae1c6b98215172") {
		return fail("SK/SB/SA of annex B: %x %x %x", r.SK, r.SB, r.SA)
	}
	// compression and DER primitives
	if c := Compress(append([]byte{4}, ra...)); len(c) != 33 || c[0] != 2|ra[63]&1 || !bytes.Equal(c[1:], ra[:32]) {
		return fail("Compress")
	}
	if v, err := ParseInteger(DERInteger(kx)); err != nil || v.Cmp(kx) != 0 {
		return fail("INTEGER round trip")
	}
	if v, err := ParseInteger(DERInteger(N)); err != nil || v.Cmp(N) != 0 || DERInteger(N)[2] != 0 {
		return fail("INTEGER with high bit")
	}
	if _, err := ParseInteger([]byte{2, 2, 0, 1}); err == nil {
		return fail("non-minimal INTEGER accepted")
	}
	if b, err := ParseBitString(DERBitString(ra)); err != nil || !bytes.Equal(b, ra) {
		return fail("BIT STRING round trip")
	}
	long := bytes.Repeat([]byte{7}, 300)
	if key2, c, err := ParseKeyPackage(EncodeKeyPackage(long, ra)); err != nil || !bytes.Equal(key2, long) || !bytes.Equal(c, ra) {
		return fail("SM9KeyPackage round trip")
	}
	// SEQUENCE headers (X.690 8.1.3, 10.1): short form, long forms, what DER forbids
	for _, v := range []struct {
		hex  string
		span int64
		ok   bool
	}{
		{"3000", 2, true}, {"3021d31e", 35, true}, {"307f", 129, true}, {"3080", 0, false}, {"30817f", 0, false},
		{"308180", 131, true}, {"3081ff", 258, true}, {"308200ff", 0, false}, {"30820100", 260, true}, {"3082ffff", 65539, true},
		{"308300ffff", 0, false}, {"3083010000", 65541, true}, {"308400ffffff", 0, false}, {"3084ffffffff", 4294967301, true},
		{"30850100000000", 0, false}, {"3081", 0, false}, {"30", 0, false}, {"3100", 0, false}, {"0400", 0, false},
	} {
		if span, ok := SequenceSpan(unhex(v.hex)); ok != v.ok || span != v.span {
			return fail("SequenceSpan(%s) = %d, %v", v.hex, span, ok)
		}
	}
	if !IsOneSequence(DERSequence(long)) || IsOneSequence(append(DERSequence(long), 0)) || IsOneSequence(DERSequence(long)[:303]) || !IsOneSequence(unhex("3003aabbcc")) {
		return fail("IsOneSequence")
	}
	return nil
}
