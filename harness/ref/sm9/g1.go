package sm9

import "math/big"

// A deliberately naive affine implementation of G1 = E(Fp): y^2 = x^3 + 5 with
// math/big (ModInverse, double-and-add). It exists so that the self-test can tie
// H1, the user-key scalar and the generator to the published key and ciphertext
// examples without the library, and so that workloads can recompute user public
// keys and C1 independently. About 1 ms per scalar multiplication.

// Pt is an affine point of E(Fp) or the point at infinity.
type Pt struct {
	X, Y *big.Int
	Inf  bool
}

// P1 is the generator of G1 (GM/T 0044.5 section 3).
var P1 = Pt{
	X: hexInt("93DE051D62BF718FF5ED0704487D01D6E1E4086909DC3280E8C4E4817C66DDDD"),
	Y: hexInt("21FE8DDA4F21E607631065125C395BBC1C1C00CBFA6024350C464CD70A3EA616"),
}

// G1Add returns a+b.
func G1Add(a, b Pt) Pt {
	if a.Inf {
		return b
	}
	if b.Inf {
		return a
	}
	var l *big.Int
	if a.X.Cmp(b.X) == 0 {
		if a.Y.Cmp(b.Y) != 0 || a.Y.Sign() == 0 {
			return Pt{Inf: true}
		}
		// l = 3x^2 / 2y
		num := new(big.Int).Mul(a.X, a.X)
		num.Mul(num, big.NewInt(3))
		den := new(big.Int).Lsh(a.Y, 1)
		l = num.Mul(num, den.ModInverse(den.Mod(den, P), P))
	} else {
		num := new(big.Int).Sub(b.Y, a.Y)
		den := new(big.Int).Sub(b.X, a.X)
		den.Mod(den, P)
		l = num.Mul(num, den.ModInverse(den, P))
	}
	l.Mod(l, P)
	x := new(big.Int).Mul(l, l)
	x.Sub(x, a.X).Sub(x, b.X).Mod(x, P)
	y := new(big.Int).Sub(a.X, x)
	y.Mul(y, l).Sub(y, a.Y).Mod(y, P)
	return Pt{X: x, Y: y}
}

// G1Mul returns [k]p for k >= 0.
func G1Mul(k *big.Int, p Pt) Pt {
	r := Pt{Inf: true}
	for i := k.BitLen() - 1; i >= 0; i-- {
		r = G1Add(r, r)
		if k.Bit(i) == 1 {
			r = G1Add(r, p)
		}
	}
	return r
}

// Bytes returns x||y (64 bytes); the point at infinity has no such encoding (nil).
func (p Pt) Bytes() []byte {
	if p.Inf {
		return nil
	}
	return append(Bytes32(p.X), Bytes32(p.Y)...)
}

// G1FromBytes decodes x||y; ok is false unless the point is on the curve and canonical.
func G1FromBytes(xy []byte) (Pt, bool) {
	if !OnCurveG1(xy) {
		return Pt{}, false
	}
	return Pt{X: new(big.Int).SetBytes(xy[:32]), Y: new(big.Int).SetBytes(xy[32:])}, true
}

// EncUserPublic returns QB = [H1(ID||hid)]P1 + Ppub-e as x||y, the G1 element a
// sender encrypts or wraps to (GM/T 0044.4); ppub is x||y of the master public key.
func EncUserPublic(ppub, uid []byte, hid byte) []byte {
	pp, ok := G1FromBytes(ppub)
	if !ok {
		return nil
	}
	h1 := HashToRange(1, append(append([]byte{}, uid...), hid), N)
	return G1Add(G1Mul(h1, P1), pp).Bytes()
}
