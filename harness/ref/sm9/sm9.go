// Package sm9 holds the reference pieces of the SM9 schemes (GM/T 0044-2016 /
// GB/T 38635) that do not need a pairing: the hash-to-range functions H1 and H2,
// the key derivation function, the user-key scalar, the message authentication
// and confirmation hashes, the symmetric part of the encryption scheme in its
// five modes, the curve membership test of G1 and the ASN.1 message formats of
// GM/T 0080 (SM9Signature, SM9Cipher, SM9KeyPackage, keys). It is written from
// the text of the standard on top of verifh/ref/sm3 and verifh/ref/sm4 and does
// not import the library. Group and pairing values (w, g1, g2, g3) are inputs.
package sm9

import (
	"bytes"
	"encoding/binary"
	"errors"
	"math/big"

	"verifh/ref/sm3"
	"verifh/ref/sm4"
)

func hexInt(s string) *big.Int { v, _ := new(big.Int).SetString(s, 16); return v }

var (
	// P is the field characteristic and N the group order of the SM9 curve (GM/T 0044.5 section 3).
	P = hexInt("B640000002A3A6F1D603AB4FF58EC74521F2934B1A7AEEDBE56F9B27E351457D")
	N = hexInt("B640000002A3A6F1D603AB4FF58EC74449F2934B18EA8BEEE56EE19CD69ECF25")
	// B is the curve coefficient of E: y^2 = x^3 + 5.
	B = big.NewInt(5)
)

// HLenBytes returns hlen/8 where hlen = 8*ceil(5*log2(n)/32) (GM/T 0044.2 5.4.2.2):
// the smallest k with 32k >= 5*log2(n), i.e. 2^(32k) >= n^5.
func HLenBytes(n *big.Int) int {
	n5 := new(big.Int).Exp(n, big.NewInt(5), nil)
	k := 1
	for new(big.Int).Lsh(big.NewInt(1), uint(32*k)).Cmp(n5) < 0 {
		k++
	}
	return k
}

// HashToRange is H1 (prefix 0x01) / H2 (prefix 0x02) of GM/T 0044.2 5.4.2.2/5.4.2.3:
// Ha = first hlen bits of Hv(prefix||Z||ct) for ct = 1, 2, ...; h = (Ha mod (n-1)) + 1.
func HashToRange(prefix byte, z []byte, n *big.Int) *big.Int {
	hl := HLenBytes(n)
	var ha []byte
	for ct := uint32(1); len(ha) < hl; ct++ {
		var c [4]byte
		binary.BigEndian.PutUint32(c[:], ct)
		ha = append(ha, sm3.SumParts([]byte{prefix}, z, c[:])...)
	}
	v := new(big.Int).SetBytes(ha[:hl])
	nm1 := new(big.Int).Sub(n, big.NewInt(1))
	v.Mod(v, nm1)
	return v.Add(v, big.NewInt(1))
}

// H1 returns H1(Z, N) as a 32-byte big-endian string.
func H1(z []byte) []byte { return Bytes32(HashToRange(1, z, N)) }

// H2 returns H2(Z, N) as a 32-byte big-endian string.
func H2(z []byte) []byte { return Bytes32(HashToRange(2, z, N)) }

// Bytes32 encodes v (< 2^256) on 32 bytes.
func Bytes32(v *big.Int) []byte { return v.FillBytes(make([]byte, 32)) }

// KDF is the key derivation function of GM/T 0044.2 5.4.3 (same as GB/T 32918).
func KDF(z []byte, klen int) []byte { return sm3.KDF(z, klen) }

// Cat concatenates byte strings.
func Cat(parts ...[]byte) []byte {
	var out []byte
	for _, p := range parts {
		out = append(out, p...)
	}
	return out
}

// UserScalar returns t2 = ks * (H1(ID||hid) + ks)^-1 mod N, the scalar of a user's
// private key (GM/T 0044.2 6.1 for signing: dsA = [t2]P1; 0044.4 for encryption:
// deB = [t2]P2). ok is false when t1 = 0 (the master key must be regenerated).
func UserScalar(ks *big.Int, uid []byte, hid byte) (t2 *big.Int, ok bool) {
	t1 := HashToRange(1, append(append([]byte{}, uid...), hid), N)
	t1.Add(t1, ks).Mod(t1, N)
	if t1.Sign() == 0 {
		return nil, false
	}
	inv := new(big.Int).ModInverse(t1, N)
	t2 = inv.Mul(inv, ks)
	return t2.Mod(t2, N), true
}

// OnCurveG1 reports whether the 64-byte string x||y is the canonical encoding of a
// finite point of E(Fp): both coordinates < p and y^2 = x^3 + 5. G1 = E(Fp) has
// prime order N (cofactor 1), so this is membership in G1 (minus the identity).
func OnCurveG1(xy []byte) bool {
	if len(xy) != 64 {
		return false
	}
	x := new(big.Int).SetBytes(xy[:32])
	y := new(big.Int).SetBytes(xy[32:])
	if x.Cmp(P) >= 0 || y.Cmp(P) >= 0 {
		return false
	}
	l := new(big.Int).Mul(y, y)
	l.Mod(l, P)
	r := new(big.Int).Mul(x, x)
	r.Mul(r, x).Add(r, B).Mod(r, P)
	return l.Cmp(r) == 0
}

// Compress turns 04||X||Y (65 bytes for G1, 129 bytes for G2 with
// X = x1||x0, Y = y1||y0) into the compressed form (02|03)||X, where the low bit of
// the prefix is the low bit of the last coordinate byte (y for G1, y0 for G2).
func Compress(uncompressed []byte) []byte {
	n := len(uncompressed)
	if (n != 65 && n != 129) || uncompressed[0] != 4 {
		return nil
	}
	half := (n - 1) / 2
	out := make([]byte, 1+half)
	out[0] = 2 | uncompressed[n-1]&1
	copy(out[1:], uncompressed[1:1+half])
	return out
}

// ---------------------------------------------------------------- encryption

// Mode is the symmetric method of the SM9 encryption scheme; the value is the
// EnType field of SM9Cipher (GM/T 0080).
type Mode int

const (
	XOR Mode = 0 // C2 = M xor K1 (GM/T 0044.4 "based on KDF")
	ECB Mode = 1 // SM4-ECB, PKCS#7 padding
	CBC Mode = 2 // IV || SM4-CBC, PKCS#7 padding
	OFB Mode = 4 // IV || SM4-OFB
	CFB Mode = 8 // IV || SM4-CFB (128-bit feedback)
)

// Modes lists all five.
var Modes = []Mode{XOR, ECB, CBC, CFB, OFB}

func (m Mode) String() string {
	switch m {
	case XOR:
		return "xor"
	case ECB:
		return "ecb"
	case CBC:
		return "cbc"
	case OFB:
		return "ofb"
	case CFB:
		return "cfb"
	}
	return "mode?"
}

// K1Len is the length of the symmetric key: the message length for XOR, the SM4
// key length otherwise. c2len is the length of C2 (= message length for XOR).
func (m Mode) K1Len(c2len int) int {
	if m == XOR {
		return c2len
	}
	return 16
}

// HasIV reports whether C2 starts with a 16-byte IV.
func (m Mode) HasIV() bool { return m == CBC || m == CFB || m == OFB }

// K2Len is the MAC key length (the hash output length).
const K2Len = 32

func xor(a, b []byte) []byte {
	out := make([]byte, len(a))
	for i := range a {
		out[i] = a[i] ^ b[i]
	}
	return out
}

func pkcs7(m []byte) []byte {
	k := 16 - len(m)%16
	return append(append([]byte{}, m...), bytes.Repeat([]byte{byte(k)}, k)...)
}

func unpkcs7(s []byte) ([]byte, bool) {
	if len(s) == 0 || len(s)%16 != 0 {
		return nil, false
	}
	k := int(s[len(s)-1])
	if k < 1 || k > 16 {
		return nil, false
	}
	for _, b := range s[len(s)-k:] {
		if int(b) != k {
			return nil, false
		}
	}
	return s[:len(s)-k], true
}

// EncC2 computes C2 from the message, the key K1 and (for CBC/CFB/OFB) the IV.
func EncC2(m Mode, k1, iv, msg []byte) []byte {
	if m == XOR {
		return xor(msg, k1)
	}
	c := sm4.New(k1)
	var out []byte
	switch m {
	case ECB:
		p := pkcs7(msg)
		out = make([]byte, len(p))
		for i := 0; i < len(p); i += 16 {
			c.Encrypt(out[i:i+16], p[i:i+16])
		}
	case CBC:
		p := pkcs7(msg)
		out = append([]byte{}, iv...)
		prev := iv
		for i := 0; i < len(p); i += 16 {
			b := make([]byte, 16)
			c.Encrypt(b, xor(p[i:i+16], prev))
			out = append(out, b...)
			prev = b
		}
	case CFB:
		out = append([]byte{}, iv...)
		reg := append([]byte{}, iv...)
		for i := 0; i < len(msg); i += 16 {
			ks := make([]byte, 16)
			c.Encrypt(ks, reg)
			e := i + 16
			if e > len(msg) {
				e = len(msg)
			}
			ct := xor(msg[i:e], ks[:e-i])
			out = append(out, ct...)
			reg = ct // only used again when the segment was complete
		}
	case OFB:
		out = append([]byte{}, iv...)
		reg := append([]byte{}, iv...)
		for i := 0; i < len(msg); i += 16 {
			ks := make([]byte, 16)
			c.Encrypt(ks, reg)
			e := i + 16
			if e > len(msg) {
				e = len(msg)
			}
			out = append(out, xor(msg[i:e], ks[:e-i])...)
			reg = ks
		}
	}
	return out
}

// DecC2 inverts EncC2; ok is false when C2 is not a possible output of EncC2
// (empty, not block aligned, bad padding, nothing after the IV).
func DecC2(m Mode, k1, c2 []byte) (msg []byte, ok bool) {
	if len(c2) == 0 {
		return nil, false
	}
	if m == XOR {
		if len(k1) != len(c2) {
			return nil, false
		}
		return xor(c2, k1), true
	}
	c := sm4.New(k1)
	var iv []byte
	if m.HasIV() {
		if len(c2) <= 16 {
			return nil, false
		}
		iv, c2 = c2[:16], c2[16:]
	}
	switch m {
	case ECB, CBC:
		if len(c2)%16 != 0 {
			return nil, false
		}
		p := make([]byte, 0, len(c2))
		prev := iv
		for i := 0; i < len(c2); i += 16 {
			b := make([]byte, 16)
			c.Decrypt(b, c2[i:i+16])
			if m == CBC {
				b = xor(b, prev)
				prev = c2[i : i+16]
			}
			p = append(p, b...)
		}
		return unpkcs7(p)
	case CFB, OFB:
		reg := append([]byte{}, iv...)
		for i := 0; i < len(c2); i += 16 {
			ks := make([]byte, 16)
			c.Encrypt(ks, reg)
			e := i + 16
			if e > len(c2) {
				e = len(c2)
			}
			msg = append(msg, xor(c2[i:e], ks[:e-i])...)
			if m == CFB {
				reg = c2[i:e]
			} else {
				reg = ks
			}
		}
		return msg, true
	}
	return nil, false
}

// C3 is MAC(K2, C2) = Hv(C2 || K2) (GM/T 0044.4 5.4.5).
func C3(c2, k2 []byte) []byte { return sm3.SumParts(c2, k2) }

// EncKey derives K = K1||K2 = KDF(C1 || w || ID, K1Len + K2Len); c1 is x||y (64 bytes),
// w the 384-byte encoding of the GT element.
func EncKey(c1, w, uid []byte, klen int) []byte { return KDF(Cat(c1, w, uid), klen) }

// Open is the reference decryption given w = e(C1, de): it returns the message, or
// ok=false when the ciphertext must be refused (C3 mismatch, C2 malformed).
// c1 is x||y (64 bytes). k1zero reports that K1 came out all zero: the standard
// makes the sender retry and the receiver refuse in that case (probability 2^-8
// for a one-byte message in XOR mode); the caller decides what to demand then -
// ok and msg are computed as if the rule did not exist.
func Open(m Mode, c1, c3, c2, w, uid []byte) (msg []byte, ok, k1zero bool) {
	if len(c2) == 0 || len(c1) != 64 {
		return nil, false, false
	}
	k1len := m.K1Len(len(c2))
	k := EncKey(c1, w, uid, k1len+K2Len)
	k1zero = allZero(k[:k1len])
	if !bytes.Equal(C3(c2, k[k1len:]), c3) {
		return nil, false, k1zero
	}
	msg, ok = DecC2(m, k[:k1len], c2)
	return msg, ok, k1zero
}

func allZero(b []byte) bool {
	for _, v := range b {
		if v != 0 {
			return false
		}
	}
	return true
}

// ---------------------------------------------------------------- key exchange

// KexResult holds what both parties must compute (GM/T 0044.3 6.2).
type KexResult struct {
	SK []byte // shared key SKA = SKB
	SB []byte // responder's confirmation, checked by the initiator as S1
	SA []byte // initiator's confirmation, checked by the responder as S2
}

// Kex computes the shared key and the optional confirmation values from the
// identities, the exchanged points RA, RB (x||y, 64 bytes each) and the three GT
// values g1 = e(Ppub,P2)^rA, g2 = e(Ppub,P2)^rB, g3 = g1^rB (384 bytes each).
func Kex(idA, idB, ra, rb, g1, g2, g3 []byte, klen int) KexResult {
	inner := sm3.SumParts(g2, g3, idA, idB, ra, rb)
	return KexResult{
		SK: KDF(Cat(idA, idB, ra, rb, g1, g2, g3), klen),
		SB: sm3.SumParts([]byte{0x82}, g1, inner),
		SA: sm3.SumParts([]byte{0x83}, g1, inner),
	}
}

// ---------------------------------------------------------------- DER formats

const (
	tagInteger     = 0x02
	tagBitString   = 0x03
	tagOctetString = 0x04
	tagSequence    = 0x30
)

func derLen(n int) []byte {
	switch {
	case n < 0x80:
		return []byte{byte(n)}
	case n < 0x100:
		return []byte{0x81, byte(n)}
	case n < 0x10000:
		return []byte{0x82, byte(n >> 8), byte(n)}
	}
	return []byte{0x83, byte(n >> 16), byte(n >> 8), byte(n)}
}

// TLV returns the DER encoding tag || length || content.
func TLV(tag byte, content []byte) []byte {
	return Cat([]byte{tag}, derLen(len(content)), content)
}

// DERInteger encodes a non-negative integer.
func DERInteger(v *big.Int) []byte {
	b := v.Bytes()
	if len(b) == 0 || b[0]&0x80 != 0 {
		b = append([]byte{0}, b...)
	}
	return TLV(tagInteger, b)
}

// DERBitString encodes a byte string as BIT STRING with no unused bits.
func DERBitString(b []byte) []byte { return TLV(tagBitString, append([]byte{0}, b...)) }

// DEROctetString encodes an OCTET STRING.
func DEROctetString(b []byte) []byte { return TLV(tagOctetString, b) }

// DERSequence wraps the concatenated elements.
func DERSequence(elems ...[]byte) []byte { return TLV(tagSequence, Cat(elems...)) }

// EncodeSignature: SM9Signature ::= SEQUENCE { h OCTET STRING, s BIT STRING } with
// s = 04||x||y.
func EncodeSignature(h, s []byte) []byte {
	return DERSequence(DEROctetString(h), DERBitString(s))
}

// EncodeCipher: SM9Cipher ::= SEQUENCE { enType INTEGER, c1 BIT STRING, c3 OCTET STRING,
// cipherText OCTET STRING } with c1 = 04||x||y.
func EncodeCipher(m Mode, c1, c3, c2 []byte) []byte {
	return DERSequence(DERInteger(big.NewInt(int64(m))), DERBitString(c1), DEROctetString(c3), DEROctetString(c2))
}

// EncodeKeyPackage: SM9KeyPackage ::= SEQUENCE { k OCTET STRING, c BIT STRING }.
func EncodeKeyPackage(key, c []byte) []byte {
	return DERSequence(DEROctetString(key), DERBitString(c))
}

var errDER = errors.New("ref/sm9: not the expected DER structure")

// readTLV reads one strictly DER-encoded element (definite, minimal length).
func readTLV(b []byte) (tag byte, content, rest []byte, err error) {
	if len(b) < 2 {
		return 0, nil, nil, errDER
	}
	tag = b[0]
	if tag&0x1f == 0x1f {
		return 0, nil, nil, errDER
	}
	n := int(b[1])
	off := 2
	if n&0x80 != 0 {
		k := n & 0x7f
		if k == 0 || k > 3 || len(b) < 2+k {
			return 0, nil, nil, errDER
		}
		n = 0
		for i := 0; i < k; i++ {
			n = n<<8 | int(b[2+i])
		}
		if n < 0x80 || (k > 1 && n>>(8*(uint(k)-1)) == 0) {
			return 0, nil, nil, errDER // not minimal
		}
		off = 2 + k
	}
	if len(b) < off+n {
		return 0, nil, nil, errDER
	}
	return tag, b[off : off+n], b[off+n:], nil
}

func readTag(b []byte, want byte) (content, rest []byte, err error) {
	tag, c, r, err := readTLV(b)
	if err != nil || tag != want {
		return nil, nil, errDER
	}
	return c, r, nil
}

func readBits(b []byte) (bits, rest []byte, err error) {
	c, r, err := readTag(b, tagBitString)
	if err != nil || len(c) < 1 || c[0] != 0 {
		return nil, nil, errDER
	}
	return c[1:], r, nil
}

func readInt(b []byte) (v *big.Int, rest []byte, err error) {
	c, r, err := readTag(b, tagInteger)
	if err != nil || len(c) == 0 {
		return nil, nil, errDER
	}
	if len(c) > 1 && (c[0] == 0 && c[1]&0x80 == 0 || c[0] == 0xff && c[1]&0x80 != 0) {
		return nil, nil, errDER // not minimal
	}
	v = new(big.Int).SetBytes(c)
	if c[0]&0x80 != 0 {
		v.Sub(v, new(big.Int).Lsh(big.NewInt(1), uint(8*len(c))))
	}
	return v, r, nil
}

// ParseSignature decodes SM9Signature.
func ParseSignature(der []byte) (h, s []byte, err error) {
	seq, rest, err := readTag(der, tagSequence)
	if err != nil || len(rest) != 0 {
		return nil, nil, errDER
	}
	if h, seq, err = readTag(seq, tagOctetString); err != nil {
		return nil, nil, err
	}
	if s, seq, err = readBits(seq); err != nil || len(seq) != 0 {
		return nil, nil, errDER
	}
	return h, s, nil
}

// ParseCipher decodes SM9Cipher.
func ParseCipher(der []byte) (enType *big.Int, c1, c3, c2 []byte, err error) {
	seq, rest, err := readTag(der, tagSequence)
	if err != nil || len(rest) != 0 {
		return nil, nil, nil, nil, errDER
	}
	if enType, seq, err = readInt(seq); err != nil {
		return nil, nil, nil, nil, err
	}
	if c1, seq, err = readBits(seq); err != nil {
		return nil, nil, nil, nil, err
	}
	if c3, seq, err = readTag(seq, tagOctetString); err != nil {
		return nil, nil, nil, nil, err
	}
	if c2, seq, err = readTag(seq, tagOctetString); err != nil || len(seq) != 0 {
		return nil, nil, nil, nil, errDER
	}
	return enType, c1, c3, c2, nil
}

// ParseKeyPackage decodes SM9KeyPackage.
func ParseKeyPackage(der []byte) (key, c []byte, err error) {
	seq, rest, err := readTag(der, tagSequence)
	if err != nil || len(rest) != 0 {
		return nil, nil, errDER
	}
	if key, seq, err = readTag(seq, tagOctetString); err != nil {
		return nil, nil, err
	}
	if c, seq, err = readBits(seq); err != nil || len(seq) != 0 {
		return nil, nil, errDER
	}
	return key, c, nil
}

// ParseBitString decodes a lone BIT STRING (SM9PublicKey1, user private keys,
// master public keys).
func ParseBitString(der []byte) ([]byte, error) {
	b, rest, err := readBits(der)
	if err != nil || len(rest) != 0 {
		return nil, errDER
	}
	return b, nil
}

// ParseInteger decodes a lone INTEGER (master private keys).
func ParseInteger(der []byte) (*big.Int, error) {
	v, rest, err := readInt(der)
	if err != nil || len(rest) != 0 {
		return nil, errDER
	}
	return v, nil
}

// SequenceSpan reads the identifier and length octets of a DER SEQUENCE at the start of b
// (strict DER as golang.org/x/crypto/cryptobyte reads it: tag 0x30, definite length, minimal
// length octets, at most four of them) and returns the number of octets that header and
// content span together. b may be a prefix of the data: only the header is looked at.
// ok is false when b does not start with such a header.
func SequenceSpan(b []byte) (span int64, ok bool) {
	if len(b) < 2 || b[0] != tagSequence {
		return 0, false
	}
	n := int64(b[1])
	if n&0x80 == 0 {
		return 2 + n, true
	}
	k := int(n & 0x7f)
	if k == 0 || k > 4 || len(b) < 2+k {
		return 0, false
	}
	n = 0
	for i := 0; i < k; i++ {
		n = n<<8 | int64(b[2+i])
	}
	if n < 0x80 || (k > 1 && n>>(8*(uint(k)-1)) == 0) {
		return 0, false // not minimal
	}
	return int64(2+k) + n, true
}

// IsOneSequence reports whether b is exactly one DER SEQUENCE element (header as in
// SequenceSpan, content to the last octet of b, whatever the content is).
func IsOneSequence(b []byte) bool {
	span, ok := SequenceSpan(b)
	return ok && span == int64(len(b))
}
