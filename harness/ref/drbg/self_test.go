package drbg

import "testing"

func TestSelf(t *testing.T) {
	seen, err := SelfTest()
	if err != nil {
		t.Fatal(err)
	}
	t.Log(seen)
}
