// Known answers for the hash functions of SP 800-90A Rev.1 table 2 that the package's own table tests do not cover as
// Hash_DRBG (SHA-224, SHA-384, SHA-512/224, SHA-512/256), computed with an independently developed and CAVP-validated
// implementation: OpenSSL 3.0.20, EVP_RAND "HASH-DRBG" / "HMAC-DRBG" with a "TEST-RAND" parent supplying entropy input and
// nonce (the procedure of OpenSSL's own evp_test for the CAVP files: instantiate, reseed, generate, generate; prediction
// resistance off; the output of the second generate is recorded). The generating program (end of this file) first reproduces
// the first SHA-256 CAVP row of vectors.go as a control; rows for SHA-1, SHA-256 and SHA-512 are included so that the
// procedure is also cross-checked against mechanisms whose model is validated by CAVP rows with intermediate states.
// Every hash has one row without and one with personalisation string and additional inputs (odd lengths: 37, 29 bytes);
// the outputs (144 / 131 bytes) are longer than both seed lengths and not a multiple of any output length.

package drbg

type opensslKAT struct {
	mech, alg                               string
	entropy, nonce, pers                    string
	entropyReseed, addlReseed, addl1, addl2 string
	out                                     string
}

var opensslKATs = []opensslKAT{
	{"hash", "sha256.New224",
		"498aad16488cd4ea3fe35ba07217da9038ac515fac18fb5f7e60ff0785122f51", "c7c2911050f821a53a35700207662900", "",
		"c33158035fd0bb1c30db9ac73104c8e14dd861b9ccf22c8808426252add6b7b8", "", "", "",
		"50df85a3877eed0a1471874017991096e892ad401970e58246c093150760eee8521f9b458830701f02a214038e955030390934399cab47f7ad962a00ba60e1664ca8d2df27476c68cc853eddcf33de21a63c2ff355f3c37cfa5b05d9e204017ebd7a88c1ebc981b2d1b64ed9b4a0521c58918d01b5b4ef7b03d84186e4f4c305842478a70885d3d91321ac4e2eedd9ee"},
	{"hash", "sha256.New224",
		"4f2c1bccbc03128d9e0aa3115c31c6967a5ac8bcbf5e45f0bc6f01bc0d0a1bf7d51444e65dcef6bbe4b4df13ea89ea5e", "cd64fec5c36f5f48985db874f18016072c6978301ffc5653", "4c9be2bfcbdbac0493afcdd686cf6577dd7729a37f9b66b618b09843d3e27691baa9af8c22",
		"cad3c6b9d247f9bf8e02e2391b1eb5e88f86d916df3976184650640735cea35e2d74e55f0526c85b8aa5bd47749cd843", "480aaab3dab3467b8954f69bb16d04584095898a3fd7877b73f02fca98", "c6428dade11e933684a70bfe46bc54c9f2a439fd9f7597dea191fa8efb", "457a71a7e98ae0f27ff92060db0ba339a3b2e970ff13a741cf31c6525d",
		"53e84ae9485203fc4ab8c2730666783d5834f3144561fe3216d7011f0a794a77d8c4a612b9b5920b9a00978a79b1697892b8a8a8ae70613c545b4063f0c6baa1c51f905ed06a7faaabd5bd141af6ed54b0861fe259158006c2c32fabf4417a0b64274efc665ce6fb77ccd8b72c60a6a1300816c6466fe542920b4a7e170c73f88e28b1"},
	{"hash", "sha512.New384",
		"55ce88812f7a5030fc31eb83464cb29cbc08401ad1a59080fa7d03719602079d", "d4066c7b36e69debf78400e5dc9b020d", "",
		"d075346f46be3762ed292aaa0639a1eed0345074f27fc1a9845e66bcbec68f04", "", "", "",
		"3f1507af08684f29f2722a35db89ddbd62f9b06ad4150ae9dd6448fc6cce765fb0d97e03466ba9fc84934cefedc5b15e8a47579c8c5665303cea05a34af1a7ce21aefdab57d88307deea0ad59296b37f1c99c5163d56b5fa3138be7921fd24297ef3a7d464406570b8e910fa576367b27c34233f1390223b05744362ce1c95fd9b5751f952bc9100d05c88f690721a22"},
	{"hash", "sha512.New384",
		"5c70f637a2f18fd35b5933f431669fa3feb6b777e4ecda11388b05261ffaf3432437736a343a9f2cab1eb9eb7972cb54", "daa8da31aa5ddc8f56ab4857c6b5ee13afc568ea448aea73", "58dfbe2bb1c9284a51fe5db95b043e8461d4185ea428fbd694cc9cade4d24ddc09ccde10f9",
		"d717a125b93475064c50711cf0538df412e3c8d104c60b39c16d687147be7ba97c9614e3db9270cc510f971e0286b939", "554e851ec0a0c2c147a3867e85a2dd65c4f1784464641c9cef0d3335a9", "d3866918c80c0f7d42f59be11bf12cd5750028b8c4022cff1daefef80c", "51bd4d12cf785c383d48b043b0407c46270fd82b25a13c624b4ecabc6f",
		"b3d87c16919acffde773084459187c2cb306accf7edef170e359d80f888b7f30cfe01e36b6e1239297ff234036c6ca2ffa967b5683d187fb9605ef4257c5bdb72fd2301cb842f1c5a15f9d3b91b08579493f899c11f0e782776cf378ca46a3560f3b652340bea3eb194693f2afd7340a06fa733aa22151f931955ef3b9aa46f8746ac4"},
	{"hash", "sha512.New512_224",
		"621264ed1568cd76ba807b661b808ba93f652fd4f73224a1769a07dba7f2dfe9", "e04948e71dd41a32b4d290c9b0cfdb19", "",
		"ddb80fda2cabb4a9aa77b98edb6d7afa54913f2e170d56caff7b6a26cfb6674f", "", "", "",
		"f9e0d2b1fb4dde328ecd2d1141f3869cf194ffd5a42cb93f007489ceec906675f72e6e15355a8606422bd1ccc73056bd9193f58cb132b7af1163e707e689baa83f4ffb3bf455795e4e236ae0037195316c48c93001a8e8316ad92d3a067de943181cc331744cfede4fe484076f3413043fb134c9754b609ea6c64706ac287749ac83e795326dc726c7b96e77b3e0ae40"},
	{"hash", "sha512.New512_224",
		"69b4d2a289df0b1918a7c3d8069b77af8113a6320a796f31b4a80a9030ebcb8e735aa2ee0aa6489e728794c2085cac4a", "e7ebb69c904a58d513fad83a9beac720332257a56a177f94", "6523999698b6a5900e4cec9d30391690e4300718cab590f70fe9a018f5c3252858ef0e94cf",
		"e35a7d909f22f24c099f01ffc5886601963fb78c2a54a05a3d8a6cdb58ae53f5cbb94367b2fe193e187971f591709a2e", "6292618aa78e3f0704f116625ad7b571474e67ff8af2b0bd6b2a379fbb", "e0c94484aefa8cc3ff442bc4ef2605e2f95c1772ea90c12099cb02631d", "5e01287eb666d97efa96402785755452ab6bc7e64a2ed182c66bce2680",
		"f6dccddbd5e3bdbbe5fea4e33efd61d046c3922b79f3970525c291c9daac7e44065ccf625a13f624b0f26b23f3de3bf806e45a05a36fcd6080f60ff399d8ea92678125dd4c4494d635ea9f124feacf9a099a0641b718054b8e2116f9ffb7037ea3ac08f23f3ba019d1d73fbbef6d29ff670acf8fe6bbcf22ec144a7fd07ebcf23c3ac8"},
	{"hash", "sha512.New512_256",
		"6f554058fc5549bd77ce0b49f0b564b5c3c11e8f1dc0b9c2f2b70c45b9e3b734", "ed8d235204c1967872211fac8504b326", "",
		"eafceb46139930ef68c64971b0a25207d8ed2ee93d9aeaea7b986e90e1a73f9b", "", "", "",
		"1fc5baecb48da4acc6d386d488cb51fd2702f81394f3251317127a63875087be0601c6e14d400a76dfe825b22d8ee0cd82892b43401d37771e750f43bb25e51b63b487656d3d7b923e2990c1155f63f19ec60a8b5479d215811905bea2de0ff1bf00dda6ebc95f6ca3b6b8dd46e12dd5eaa75492dccccc1906347271cb489156cf39b82d1175a45570a2764992a4e2f1"},
	{"hash", "sha512.New512_256",
		"75f7ad0e6fcc8760d6f552bbdbd050bb056f96ec3006045230c50efb41dba3dac27cd173e112f01039f16e9a96468d3f", "f42f91087738d41bd048671d701fa02cb67e466090a514b5", "726675027ea421d7cb9b7c80056def9d688df6d3f04324188b06a48207b3fd74a7113d19a6",
		"f09e59fb86106e92c6ed91e29abc3e0d199ba64650e1357bb9a67046699f2a411adc72ec886ac2b0dfe24ccd205a7b24", "6ed53cf58d7cbb4ec140a6452f0b8e7ecbaa56bab07f45dde7473b09cc", "ed0d20ef95e70809bc92bba7c45addee7cb9062d101d564015e707cd2f", "6b4504e99d5355c5b7e5cf0a59a92d5f2ec8b6a070bb66a34288d29191",
		"c6d9436d500400b7572299ab6c8b780068cc0a90536a912e57311ec728ebe36baaf3d12a55596e83ddaddb4df53b1dd1c4daddd5927ee9ff631d75ff218401ccd49292e0f2105627cdfd361d784434ce75f8953ba92a83f99e3ae74a48c258a9f349dfa66446178cd126b37c221b9ddaa43e2b709f45d85e56f650e9b3a9e6c6bd7b11"},
	{"hash", "sha1.New",
		"7c991bc3e343c603341d9a2dc5ea3cc2461e0d4a434d4ee26ed310b0cad38f80", "fad1ffbdeaaf13be2f6faf8f5a398c32", "",
		"f640c6b1f987ad352514d95485d72b135b4a1da463287f0bf7b572fbf29716e7", "", "", "",
		"49bfa69ce640aec0794b74a45f4cb95e664db239c828619fa9739cbe540c5c9a35fa9eebc32383fba56fba1b02ce494797b700b3875bf3564bd8f93acfc1926bf7b4e017f1e6a0860fd5efc2d677ed92bec21bed03ed3432c15cbf30b5d4b1875b163e86a0921d2853a65f4be82730989a25210a810b79f150cc973f4671efa58a384a2dad50b3fdc124c06a88dc8166"},
	{"hash", "sha1.New",
		"823b897956ba04a69344e29eb00429c888cc85a756949873ace2126553cb7b26119f01f7b77e9981005b487125306e35", "00736d735d2651628e96f701455378393ada351ab632a9d5", "7faa516d65929e1d89e90c63daa2c8a9ebe9e58e16d0b9380723a8ec18a3d5c0f6346c9d7c",
		"fde234676cfdebd9843c21c66ff1171a9df89501766eca9b35c374b07b8f028d69ffa2705ed66a22a64c26a4ae445c1a", "7b191861746938947f8e36280440678a4e074574d60cdafe63643f74dd", "f951fc5b7cd585507ae14a8b998fb6fb0015f5e836abea6190040b3740", "7888df548341d20b75335fed2ede056bb224a55b9649fbc4bea5d6fba3",
		"d43b6c71ac2876fe797bdbac6f0979c1d00988449fbfd70e838a0d0e9ed22089dba9593695dff82f4af95aef11521ae5dc71ba1ccf9dc32257554be19ceec46baf3f471721cdb68d9b66a7caa2cc420b98990e4a27034ee63e77251fa11d08575665a7edda4925057f8903d9558ffdcc4e1a25f2b975f950d9c36b47ade6fe8113e5fe"},
	{"hash", "sha256.New",
		"89ddf72fc9314249f26b2a109a1f15ceca7afc0468dbe303e9f0141adbc367cc", "0714db29d19d8f05ecbe3f722f6e643f", "",
		"0383a21ce074297ce2636937590c0320dfa60c5e89b5142c73d276650387ee33", "", "", "",
		"df14db1e6d7a5f96ba0ad987971f2684d426529e556f07d2b7d617cb36b5e45bdab79aee4a06b9a5606e113220c702e51571cfe01d5caccd79b2e3e91027502dc5ddb2a4f074d76f06d839d260ef6f26c7a45d65019fd7bb34e9420e90f1f19545a2c551d4502251de294f9f572ef1037388a685c6e9ca5e4750a953eb818733b2fd0f98e524c904ea665e0433e12b39"},
	{"hash", "sha256.New",
		"8f7f65e53ca880ec50927281853901d40c2874627b212d9327ff16cf64bb537261c2307b8dea42f3c7c42248b31a4f2a", "0db648de4413cda84be587e41a885145bd3724d5dbbf3ef6", "8bee2cd84b7f1a6346379c46afd7a0b66f46d4483b5e4e598340ad572993ad0c46579b2152",
		"0a2510d253eb671f418ab1a94426f026205484bc9bfc5ebcb1e0781a8c7fdad9b821d1f4354213936db6007b3d2e3e0f", "885df4cc5b57b4da3cddc50bd9753f97d263342ffb9a6f1fde8143deef", "0694d7c662c30196372fda6e6ec48f078472e4a25c387f820c210fa251", "84ccbbc06a2f4e513282efd00313de7835819416bcd690e53ac1da65b4",
		"4e08c21a49d57d2a97f92be5cb4ee19fa0a1388431a4ee97c2795e9ac8ab69bc467f8ca385ea8d2408bff911ac761083bb457e75e7896df9a125e52f6ec799c790047cb6819be80db95bc80fbc776c7a7d3792b1eda820a1fa29c7e260e965026a074972d785132b9263541392c29d201360a15ccc0a87359eeb26687a25b777be96eb"},
	{"hash", "sha512.New",
		"9521d29ab01ebe90afbabaf36f54eedb4ed6ebbf8e687824650d1884edb33f18", "1458b694b78a0b4baa0ccf5604a23d4b", "",
		"10c77e88c662a5c2a0b1f81b2e40dc2c6203fb19ae42a94cefee7acf1577c67e", "", "", "",
		"e217214c7f35f0b6b9605b2701db274eca2f47f348ef8285d98882a1924446869c7d3d962395ad40cd983826aa194c4e07ab362d348717c42e7bce6b9d784fee95b5a41ac252432e2c63802ca0e08996aa27ec6731ef8ef5b88372a31a4d351c0d5c8b3f23ce90ffd38c17b6650939bf5cd7f5539d7850287fa9b8fa8f8d4c26d0d363a520b06d2ea9f8133b2326ac3b"},
	{"hash", "sha512.New",
		"9cc240502395fd330ee10265596edae18f85631ca1afc2b4a31c1a3a75ab2bbeb0e55fff6456ea658e2efd2042043120", "1afa244a2a014aee093317c7efbd295141931390014dd217", "98310844326d97aa03862b2a840c79c2f2a2c30361ebe37aff5cb1c13b838557957acaa529",
		"1669eb3e3ad9e465fed8408c195bc833a4b17376c189f3dd2cfd7c859d6fb224074400780baebc05341fda53cb181f05", "95a0cf3741453121f92b55efaeaa18a356c023ea212704405a9d474800", "13d8b33149b07ddcf47e6a5143f9671407ced35d81c514a2883e130c63", "9110972b501cca98efd07fb4d848b784b9dd83d0e1642405b6deded0c5",
		"ac6300282f1a840eb7775ab823336ab21fcb7065a58ae5a1f06cfd75aa0064de5f60942ce5f0a8bb3d40df6395652c6c98067bb93befc637e5f9f3501dd5d8d851672fba8d743c4d1cdd8d2e378662ac0a5a1c28ee44ea1ea4b5928189995ceff25e21c34d9e6c437099463ae487a6b6c5db1ef41ea59b19cc7dedb649bf29b423544e"},
	{"hmac", "sha256.New224",
		"a264ae06960c3bd66c084ad64488c6e7d133da7ab4f50c44e12a1ceffea41763", "209c92009e788891675b5f39d9d71658", "",
		"1d0b59f3ad5022085d0088fe0375b539e65febd4d4d03e6d6a0b7e3a26689eca", "", "", "",
		"fa411a19de414931f74016d5d6b89c87094af6fdd2209cc6d66b394a3c86b6ac51982145523158b148283a4353dbb035bc6a8f40bc79fea43e9faf726125564d6ee07b27c7d744b3f92f7d3fb859eff43d4510ef34186dbacedbffb09f5a9da7f14bb9aeef5807d9dec9655c4674fd93a73f273a8abb1f7cec54b07e6ed3a328f81d44c9b5a0de7a7b021a8efcd22b12"},
	{"hmac", "sha256.New224",
		"a8061cbb0a837979cb2f92482ea3b3ed13e152d7c73c57d51f381ea4879c0309ff088e833ac393d75598d7f7d0ee1216", "273e00b511efc634c682a6aac3f2025ec4f0024a27da6738", "a575e3af195b13f0c1d4bb0d594152cf76ffb2be8778789a7a79b52b4c745da3e49cf929ff",
		"23adc7a920c660abbc27d06fee90a13f280d6231e71788fda81a80efaf608a7056672ffce21a6477fc89b52a5a0200fa", "a1e4aba32832ad67b779e5d283dff0b0d91c12a447b59860d6ba4bb311", "201c8e9d2f9efa23b2ccfa34182d40208b2bc218a753a9c3045b177674", "9e537297370a47dead1f0f97ad7c8f913c39728b07f1b92631fbe23ad7",
		"b3c35a5e18e4a2e00729c1a201a42be249654881577bb56cf8ea246f8c329e0535e901545a2a161d25aec914ebf89d0bdacc479f6a25d10e190b70833b8c327cda8d3e3ca60cb9dd497a10ae5eb8bbf3605ffd9f7f037aa61dc0384a4ef7df8551384bc53c18fe62d8c0dcd13f6d73796f6ac15c9d668aa6c9a00ed762a856a267cfef"},
	{"hmac", "sha512.New384",
		"afa88a717dfab71c2a56d9ba19bd9ff4558fc934da83a1655d4720590f94efaf", "2ddf6d6b846604d825a9ee1cae0cee64", "",
		"2a4e355f933d9e4f1a4e18e1d8aa8d4569bcda8efa5dd28ee62882a437587616", "", "", "",
		"412c72e223100649d53a6dfb0a043135b7d026b693771b912a21ced813135857c8ebe3ccb05b05f2e524751a1f577fcf58772ed5876dee8822b47fba12a682bd12524702943c86b36980cc255c7e34fb6387484bcbe46d0306a30c467045e9e084a46e26fa4b77a672ceb4095e0b4e4d41ef6fda5a419e22113f14e78d5d259338fc6125df001f3e734ec04b7367de4c"},
	{"hmac", "sha512.New384",
		"b54af727f071f5bf887e212b03d78bfa963e4191edcaecf59b55220e988cdb554e2abd08112f3c481c02b1ce5fd8f30b", "3381db21f8dc427b83d0368e9826db6a484cf1054d68fc58", "b2b9bf1aff488f367e234bf02d752adbfa5ba178ad060cbbf696b9965d6435ef33bf29aed6",
		"30f0a31407b4dcf279756053c3c47a4cab6a51eb0da41d1e24368459c05062bca58a5e81b8870de8c3f38f02e8ece1f0", "ae28860e0e2029ad74c875b55813c9bc5d78015f6d422d8152d7501d23", "2c5f6a08168c76696f1a8918ed62192d0e87b1d2cde03ee480771be185", "ab974e021df8c3246a6d9e7a82b1689dc09661452d7e4e47ad18e6a4e8",
		"fcd30badf2f3cac1af8fb8494708d2c3a4816f3f3c5788dec2be6a559a10887599077037ab44bf21fa916de45fd08b278617c8688945e6be143ae7219cc4e64d6fdb9bdce135dfbfaf9579978787b0f5b432a78dbef9d825cf9239aa4d8cc6c687c87e042ad003f33a696b5f42f4153e10eeecf43c3e4ee5937f877e3a87177c0e1f6f"},
	{"hmac", "sha512.New512_224",
		"bcec65dc63e73462e7a5699deef27800d8ecb8efff103686d96424c32184c7fb", "3a2349d66b53811ee2f87eff8341c771", "",
		"369210ca7a2b1b95d89da8c4addf6652ed18c94920eb67ae6245860e49484e62", "", "", "",
		"55f2c2c5187c3b29743f6050dc0ce25047bad19d11b036b19f613868652c4b7780ab737a7d4558c2821db4cafbe5b9daf79cf7991252517bfa7ed0a62eef8bb5cd7291c638944d6bc3eb2f1074927e2cd98f0a1dc062d81198756c45482ae6a4d416cb8a893bc930d0507fd6524f1e3ae621835f0cefd3893dcb79cd01e25b4aa7b6d09e5e97da0fddb27a8cb195f23d"},
	{"hmac", "sha512.New512_224",
		"c28dd392d75e720646ccb10ed80c64061a9a304c1257801617722679a97cb3a19d4dec8ce79be4bae46b8ba6eec2d401", "40c5b78cdecabfc1411fc6716d5bb377cca9e0bf72f59179", "befc9a86e6360c7d3b71dbd302aa03e77db79033d293a1dc72b3bd006f540d3b82e25832ac",
		"3d347e80eda2593836c4f03697f952582fc640a63231b23fa05388c4d1403a08f4ac8d058ff3b55a8a5d69d977d5c2e6", "bb6b627af50ea6f4311604982d48a2c9e0d5f01993cfc2a2cef4548734", "39a34674fc79f3af2c6919fbc297f13992e4a08df36ed205fb941f4b97", "b7db296d04e5406b27bb2e5d57e641aa43f25100530ce3672935ea0ef9",
		"a11aa43876d64ea77b5c6ca7e8e087fbd3ab5d85f7ffe4e0444db9959decd507d9080ceb7281f944c24d5e50b8e59ef628fec1f9a63f51bd08faba42ddc66e1c7597406c9f86ba9432b5f5c720d260cb2a05a2810891a3d35d4750036fe9ba0ad55fa5b8c240942e5329d06deeb97aad7e3e0c28c0229929c6b81f7d2cd2cb79211f0c"},
	{"hmac", "sha512.New512_256",
		"c82f41484ad5b0a9a4f3f980c327500d5c48a7a9259ecba65480282e32749f47", "476725425141fd649f460ee35876a07d", "",
		"43d6ec35611997db95eb37a882143f5e7074b8034578fccfde628a795a3826ae", "", "", "",
		"dfaa90182ae2c884e8de1c077f8e4f2b20c0f90c91fa1d63ce7765980b9756a3bb08733fdac51a6cd234eaf2a16a8fc6cfdeda21580688b7f9bb45c3e3669eed095d04b5d742640e24d950b683b34c6aa32154e799611cd9958f4959f5b34ccd8dc8f21c7202f42220f28f568d4f0105a7444e58f73dfb965e79b0ada357fc352cd9094d69baaad32ad391820faa8a7f"},
	{"hmac", "sha512.New512_256",
		"cfd1affebd4cee4c031b41f2ad413c139ef71f0738e41537928f2ae3bb6c8bedec701c10be078d2cabd5667d7cacb5f6", "4d0992f7c5b83b07fe6d565442908c834f05cf7a9882269a", "cb4076f1cc2488c3f9c06bb7d7dfdbf401147fedf82136fdeed0c16a8044e587d10587b683",
		"49785aebd48fd57ef4127f196c2e2b65b2232f6158bf465f1c708c2ee330125344cfbd89655f5ecc51c643b006bfa3db", "c8af3de5dbfb223aef65947c027d7ad56431dfd4b85d57c2491158f145", "46e721dfe3676ff5eab7a9de97ccca4615408f4718fb672577b123b5a8", "c41e05d9ead3bcb1e50abe412c1b19b6c74f40bb78997888a551ee790b",
		"4c4775d50393e8c9fa8e14187721b1077438199baa32772c282a49e788b5887765a1d937cf2d91ceacba16475728bacd12a3a861bc93be1d8d991b67f6f1998d28fb632c1655f76d5d82c29961b668926ef2ac0b16b4102ea50ecbb230a45166701278b981f76805e01487897d2e8940419c1bec7c6328b5dde8614fc721062f1f2d4d"},
	{"hmac", "sha1.New",
		"d5731cb330c32def62428963975b2919dfa596644b2b60c7d09d2c9843657793", "53aa00ad382f79ab5d949ec62daa788a", "",
		"5019c8a147061322523ac78b5748176bf4d1a7be6b0591f0597f8ee36b29fef9", "", "", "",
		"074b4e8ff6b20de9efbc78be83a0f8775bfa455cf928eff40f4d1ebe3d931f460bee9ef74044a0398cb29faeb5763b0e7181976ac91e05c0c4933236625ac40ac751baa21f09d6130d688c0ccf37ddba7f296b501b022061beb71f3b75d6b8ac8cb4e23ac793b06c7e12635401209ab01a832021cc032694a7557ccf431c42f7d39c27f073ed848c21c8c19fc5249a26"},
	{"hmac", "sha1.New",
		"db158a69a43a6b92c069d1d58276151f21530ec15e72aa570eac2e4dcc5d63383b934b949473369d723f40550b9696ec", "5a4c6e63aba5b84ebbbce63717c56590d362be35be10baba", "d884525db3110509b60efa9aac14b40084706ea81eaecb1d6aecc5d49135bdd22028b63a59",
		"56bb3557ba7d52c5b1610ffc41630371367f1e1b7e4cdb80978d9098f421ea9f93f2ec0d3ccb073d18301d8894a985d1", "d4f31950c2e99f80acb3245fd6b253e2e78ece8fdeeaece3c52d5c5c57", "532afd4ac955ec3ca70639c16c01a252999d7e023e88fc46f3ce271fb9", "d162e144d1c139f7a2584e240150f2c34aab2f759e270ca9216ef2e31c",
		"b58827add26583b0dcb058ea73a0a85b2ce128364e3cb748500ae76523169dcad00ccc646f0561934f78e07f1de562137b432901d5bc113738410fec841bb070a701634a3e2d10b5c4c4657f7fc3012894eb1b64168ddd26a57ff5aae48c8ba0acb92583df8e9232afa4eff073dbc3bf8f4aaa32d488fc49678736f3f0fa22ee10cc30"},
	{"hmac", "sha256.New",
		"e2b7f81f17b0a9351f9019476c9001266301851f71b8f4e84cba300255554fde", "60eedc191f1cf6f11ae32da902df5196", "",
		"5d5da30c2ef490681088576e2c7df077782d967991932610d59b924d7d19d645", "", "", "",
		"b192868fde8739705a1d48a9decab054a19c0582532bad319f288c2668ee58863c20db7d29c8ec8d9f44f9fe018cb2f9f91a64bb9489d3cc2b6678887b9b59bcab176e7354439a46eb5dda2f684301adac2719a693c5b5745abe9e835e2621ddfc135495fe6a69575c0032f3c6bec9acdf7f87d828d484ac9beca8568d0112e064b2e320d103816238ae35fcd4ea59df"},
	{"hmac", "sha256.New",
		"e85866d48a27e7d97eb860b857abee2ca5affd7c84ff3f788ac832b7dd4d3b848ab57a196bdfde0f39a81a2c998078e1", "66904ace92933494790a751becfa3d9c56beadefe49d4fdb", "e5c72dc899ff8150745d8a7d81498d0d08cd5d63443b603ee509c93fa325951e6f4ae5bf30",
		"63ff11c2a16bce0b6eaf9fe01697dc7db9dc0dd6a4da70a113aa94020511c2ebe2151b911237afafdf9af85f239366c6", "e136f5bca8d71bc76902b442abe62cee6beabd4904788004414a60c668", "5f6ed8b6b04368826454c9a540357b5f1cf96ebd641691676feb2b8acb", "dea6bcb0b7aeb53e5fa7dd07d684cbcfce081e30c4b4a1c99c8bf74d2d",
		"167ee5f62549a4827f4c39af5f8b88b1bdb0f3ef9ad0a2b1bc8a60de792f49ca30e0a405e1fc7d9b6bcbf1c5e05f298b7eecf18ae01ed8590dda5edb7a74648a08b048f7654c5c19c047758c52c6663b9c61a81bede539abb95e43ea5877bea2324e8ac8736909da267bac0bd938c0ddba343b2a3dc3e778990143c142eff9b9536775"},
	{"hmac", "sha512.New",
		"effad48afe9e257cdcdfa82a41c5da32e65e74d997468909c8d7346d6645272a", "6d32b784050a7237d731bd8cd6142aa3", "",
		"69a17f7814e20caecdd6e75101b2c884fb8a8533b720ba3151b896b88e09ae91", "", "", "",
		"59b477feacec09c548e6c076c96a3fc26a82b9eb7ea815fa85bc890649ba3b9ef41a5ddae1e0261036d43c71fd765c62044e7a019c4e5173479d8324118ed3fb9080b3c5928b79aed8a8c34d0b1b69062438c08af2ed62a8f2ce267a489b162f8392e8c8f3b7611f3811c3a7dd767902d3045b101aecc21bf3b111e860aa84178eabda44d5eb534fae687b0f1db5f895"},
	{"hmac", "sha512.New",
		"f59c41407115641f3b06f09b2cdfc638280cec37a98dd49906e53622ef3d13d0d9d8a99d414b87810012f403286a59d7", "73d4253a7881b1da365905fec12e16a9da1b9caa092be4fc", "f20b093380edfe9631ab1a60567d65198b294c1d69c9f45f6126cda9b4156d6abe6d144306",
		"7043ed2d87594a512cfe2fc3ebccb58a3d38fc91ca6705c28fc7986d17019a3731384a16e9a35821a603d237b17d47bc", "ee7ad0278fc4970d27504425801b04fbee47ac042a051524bd67643079", "6cb2b4219730e4c822a35888156a546ba0555d778aa32687ea072ff4dc", "eae9981b9e9c31841df56deaaab9a3dc52640debea4136ea18a8fbb83f",
		"ec6b2fd3126f167af0aaff380b5ebb52ca26c917927e71784bc563b8c1adb640254fcbf775dc5b3d5a8b0b97f9d5013dcca721ee777ab11339946a60f8020d8ffe48c80c30d2c229355f37d574a892999b61abc18ac01706efc2d0cd9ee86963884fb32da28cd1d3347d8c7462a9df4ec9e4a2f6f3206ebcac68a3dbe7f1c565b64881"},
}

/* generating program (cc kat.c -lcrypto -o kat && ./kat); it refuses to print anything but the control unless the control equals the CAVP row:

/ * Known answers for Hash_DRBG / HMAC_DRBG from OpenSSL's EVP_RAND implementation, driven the CAVP way
   (instantiate, reseed, generate, generate; prediction resistance off) with the entropy and nonce supplied
   by a TEST-RAND parent.  cc kat.c -lcrypto -o kat && ./kat * /
#include <stdio.h>
#include <string.h>
#include <stdlib.h>
#include <openssl/evp.h>
#include <openssl/core_names.h>
#include <openssl/params.h>

static unsigned char last[512], want[512];
static void hex(const char *k, const unsigned char *b, size_t n) {
    printf("%s=", k);
    for (size_t i = 0; i < n; i++) printf("%02x", b[i]);
    printf("\n");
}
/ * deterministic filler: byte i of stream s * /
static void fill(unsigned char *b, size_t n, unsigned s) {
    unsigned x = 0x9e3779b9u * (s + 1);
    for (size_t i = 0; i < n; i++) { x = x * 1664525u + 1013904223u; b[i] = (unsigned char)(x >> 24); }
}
static int run(const char *mech, const char *md, size_t elen, size_t nlen, size_t plen, size_t alen, size_t outlen, unsigned s,
               const unsigned char *fe, const unsigned char *fn, const unsigned char *fer) {
    unsigned char e[256], n[256], p[256], er[256], ar[256], a1[256], a2[256], out[512];
    fill(e, elen, s); fill(n, nlen, s + 100); fill(p, plen, s + 200); fill(er, elen, s + 300);
    fill(ar, alen, s + 400); fill(a1, alen, s + 500); fill(a2, alen, s + 600);
    if (fe) { memcpy(e, fe, elen); memcpy(n, fn, nlen); memcpy(er, fer, elen); }
    EVP_RAND *tr = EVP_RAND_fetch(NULL, "TEST-RAND", NULL);
    EVP_RAND_CTX *parent = EVP_RAND_CTX_new(tr, NULL);
    EVP_RAND *r = EVP_RAND_fetch(NULL, mech, NULL);
    EVP_RAND_CTX *ctx = EVP_RAND_CTX_new(r, parent);
    unsigned int strength = 256;
    OSSL_PARAM pp[4];
    pp[0] = OSSL_PARAM_construct_uint(OSSL_RAND_PARAM_STRENGTH, &strength);
    pp[1] = OSSL_PARAM_construct_octet_string(OSSL_RAND_PARAM_TEST_ENTROPY, e, elen);
    pp[2] = OSSL_PARAM_construct_octet_string(OSSL_RAND_PARAM_TEST_NONCE, n, nlen);
    pp[3] = OSSL_PARAM_construct_end();
    if (!EVP_RAND_instantiate(parent, 0, 0, NULL, 0, pp)) { fprintf(stderr, "parent inst\n"); return 1; }
    OSSL_PARAM dp[3];
    dp[0] = OSSL_PARAM_construct_utf8_string(OSSL_DRBG_PARAM_DIGEST, (char *)md, 0);
    dp[1] = OSSL_PARAM_construct_utf8_string(OSSL_DRBG_PARAM_MAC, (char *)"HMAC", 0);
    dp[2] = OSSL_PARAM_construct_end();
    if (!EVP_RAND_CTX_set_params(ctx, dp)) { fprintf(stderr, "set md %s\n", md); return 1; }
    if (!EVP_RAND_instantiate(ctx, 0, 0, plen ? p : (const unsigned char *)"", plen, NULL)) { fprintf(stderr, "inst %s %s\n", mech, md); return 1; }
    OSSL_PARAM rp[2];
    rp[0] = OSSL_PARAM_construct_octet_string(OSSL_RAND_PARAM_TEST_ENTROPY, er, elen);
    rp[1] = OSSL_PARAM_construct_end();
    if (!EVP_RAND_CTX_set_params(parent, rp)) { fprintf(stderr, "set reseed entropy\n"); return 1; }
    if (!EVP_RAND_reseed(ctx, 0, NULL, 0, alen ? ar : NULL, alen)) { fprintf(stderr, "reseed\n"); return 1; }
    if (!EVP_RAND_generate(ctx, out, outlen, 0, 0, alen ? a1 : NULL, alen)) { fprintf(stderr, "gen1\n"); return 1; }
    if (!EVP_RAND_generate(ctx, out, outlen, 0, 0, alen ? a2 : NULL, alen)) { fprintf(stderr, "gen2\n"); return 1; }
    memcpy(last, out, outlen);
    printf("mech=%s\nmd=%s\n", mech, md);
    hex("entropy", e, elen); hex("nonce", n, nlen); hex("pers", p, plen); hex("entropyReseed", er, elen);
    hex("addlReseed", ar, alen); hex("addl1", a1, alen); hex("addl2", a2, alen); hex("out", out, outlen);
    printf("\n");
    EVP_RAND_CTX_free(ctx); EVP_RAND_CTX_free(parent); EVP_RAND_free(r); EVP_RAND_free(tr);
    return 0;
}
static size_t unhex(const char *s, unsigned char *b) { size_t n = strlen(s) / 2; for (size_t i = 0; i < n; i++) { unsigned v; sscanf(s + 2 * i, "%2x", &v); b[i] = v; } return n; }
int main(void) {
    / * control: first SHA-256 CAVP row of the package's table test (no pers, no additional input) must reproduce * /
    unsigned char e[64], n[64], er[64];
    unhex("63363377e41e86468deb0ab4a8ed683f6a134e47e014c700454e81e95358a569", e);
    unhex("808aa38f2a72a62359915a9f8a04ca68", n);
    unhex("e62b8a8ee8f141b6980566e3bfe3c04903dad4ac2cdf9f2280010a6739bc83d3", er);
    printf("# control\n");
    if (run("HASH-DRBG", "SHA2-256", 32, 16, 0, 0, 128, 0, e, n, er)) return 1;
    unhex("04eec63bb231df2c630a1afbe724949d005a587851e1aa795e477347c8b056621c18bddcdd8d99fc5fc2b92053d8cfacfb0bb8831205fad1ddd6c071318a6018f03b73f5ede4d4d071f9de03fd7aea105d9299b8af99aa075bdb4db9aa28c18d174b56ee2a014d098896ff2282c955a81969e069fa8ce007a180183a07dfae17", want);
    if (memcmp(last, want, 128) != 0) { fprintf(stderr, "control differs from the CAVP row\n"); return 1; }
    printf("# kats\n");
    const char *mds[] = {"SHA2-224", "SHA2-384", "SHA2-512/224", "SHA2-512/256", "SHA1", "SHA2-256", "SHA2-512"};
    const char *mechs[] = {"HASH-DRBG", "HMAC-DRBG"};
    unsigned s = 1;
    for (int m = 0; m < 2; m++)
        for (int i = 0; i < 7; i++) {
            / * without and with personalisation string / additional input; output longer than seedlen and outlen * /
            if (run(mechs[m], mds[i], 32, 16, 0, 0, 144, s++, NULL, NULL, NULL)) return 1;
            if (run(mechs[m], mds[i], 48, 24, 37, 29, 131, s++, NULL, NULL, NULL)) return 1;
        }
    return 0;
}

*/
