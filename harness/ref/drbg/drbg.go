// Package drbg is the reference model of property C17: the three deterministic
// random bit generators of NIST SP 800-90A Rev.1 (Hash_DRBG 10.1.1, HMAC_DRBG
// 10.1.2, CTR_DRBG with derivation function 10.2.1/10.3.2) written from the text
// of the standard over an abstract hash / block cipher, plus the GM/T 0105-2021
// variations that github.com/emmansun/gmsm/drbg documents:
//
//   - Hash_DRBG reseed: seed_material = 0x01 || entropy_input || V || additional_input
//     (SP 800-90A: 0x01 || V || entropy_input || additional_input);
//   - Hash_DRBG and CTR_DRBG deliver at most one hash / cipher block per request (otherwise
//     all three mechanisms serve at most 2048 bytes per request, the maximum the package
//     chose below the specification's 2^19 bits);
//   - minimum lengths: Hash entropy >= outlen, nonce >= outlen/2; CTR entropy >= 32
//     bytes, nonce >= 16 bytes (instantiate and reseed);
//   - besides the reseed counter a reseed time interval (decided by the workload,
//     because it needs a clock; the model only carries the configured value).
//
// The generators are explicit state machines with exported state (V, C / Key,
// ReseedCounter); a refused operation returns an error and leaves the state
// untouched, so "refusal without side effect" is checked by continuing the history
// with the model that did not move. The package does not import the library.
package drbg

import (
	"bytes"
	"crypto/aes"
	"crypto/hmac"
	"crypto/sha1"
	"crypto/sha256"
	"crypto/sha512"
	"encoding/binary"
	"encoding/hex"
	"errors"
	"fmt"
	"hash"
	"math/big"
	"time"

	refsm3 "verifh/ref/sm3"
	refsm4 "verifh/ref/sm4"
)

// Mode selects the standard whose variations apply.
type Mode int

const (
	NIST Mode = iota
	GM
)

func (m Mode) String() string {
	if m == GM {
		return "gm"
	}
	return "nist"
}

// Level is a security level of the package: reseed interval as a number of
// Generate calls and (GM mode) as a time span.
type Level struct {
	Name     string
	Interval uint64
	Time     time.Duration
}

var (
	LevelOne  = Level{"one", 1 << 20, 600 * time.Second}
	LevelTwo  = Level{"two", 1 << 10, 60 * time.Second}
	LevelTest = Level{"test", 8, 6 * time.Second}
)

// SpecMaxRequest is max_number_of_bits_per_request of SP 800-90A table 2 / table 3
// (2^19 bits) in bytes: the most an implementation may serve per request.
const SpecMaxRequest = 1 << 16

// PackageMaxRequest is the limit the package documents and announces through
// MaxBytesPerRequest() for all three mechanisms (MAX_BYTES_PER_GENERATE, 2^14 bits; an
// implementation may choose a smaller maximum than the specification's). The model enforces
// it: a larger request is refused without touching the state. GM mode: one block instead.
const PackageMaxRequest = 1 << 11

var (
	ErrReseedRequired = errors.New("ref/drbg: reseed required")
	ErrRequestTooBig  = errors.New("ref/drbg: too many bytes requested")
	ErrEntropyLength  = errors.New("ref/drbg: invalid entropy length")
	ErrNonceLength    = errors.New("ref/drbg: invalid nonce length")
)

// Hash is an abstract hash function.
type Hash struct {
	Name      string
	Size      int // outlen in bytes
	BlockSize int // input block of the compression function (for HMAC)
	Sum       func(parts ...[]byte) []byte
}

func std(name string, newH func() hash.Hash) Hash {
	h := newH()
	return Hash{Name: name, Size: h.Size(), BlockSize: h.BlockSize(), Sum: func(parts ...[]byte) []byte {
		d := newH()
		for _, p := range parts {
			d.Write(p)
		}
		return d.Sum(nil)
	}}
}

var (
	SM3        = Hash{Name: "sm3", Size: 32, BlockSize: 64, Sum: refsm3.SumParts}
	SHA1       = std("sha1", sha1.New)
	SHA224     = std("sha224", sha256.New224)
	SHA256     = std("sha256", sha256.New)
	SHA384     = std("sha384", sha512.New384)
	SHA512     = std("sha512", sha512.New)
	SHA512_224 = std("sha512/224", sha512.New512_224)
	SHA512_256 = std("sha512/256", sha512.New512_256)
)

// HMAC is RFC 2104 over the abstract hash.
func (h Hash) HMAC(key []byte, parts ...[]byte) []byte {
	if len(key) > h.BlockSize {
		key = h.Sum(key)
	}
	ipad := make([]byte, h.BlockSize)
	opad := make([]byte, h.BlockSize)
	copy(ipad, key)
	copy(opad, key)
	for i := range ipad {
		ipad[i] ^= 0x36
		opad[i] ^= 0x5c
	}
	inner := h.Sum(append([][]byte{ipad}, parts...)...)
	return h.Sum(opad, inner)
}

// Cipher is an abstract block cipher with a fixed key length.
type Cipher struct {
	Name     string
	KeyLen   int
	BlockLen int
	New      func(key []byte) func(block []byte) []byte // returns the encryption function under key
}

func aesN(n int) Cipher {
	return Cipher{Name: fmt.Sprintf("aes%d", 8*n), KeyLen: n, BlockLen: 16, New: func(key []byte) func([]byte) []byte {
		b, err := aes.NewCipher(key)
		if err != nil {
			panic(err)
		}
		return func(in []byte) []byte {
			out := make([]byte, 16)
			b.Encrypt(out, in)
			return out
		}
	}}
}

var (
	AES128 = aesN(16)
	AES192 = aesN(24)
	AES256 = aesN(32)
	SM4    = Cipher{Name: "sm4", KeyLen: 16, BlockLen: 16, New: func(key []byte) func([]byte) []byte {
		c := refsm4.New(key)
		return func(in []byte) []byte {
			out := make([]byte, 16)
			c.Encrypt(out, in)
			return out
		}
	}}
)

// Generator is what the three state machines have in common.
type Generator interface {
	// Generate returns n bytes, or ErrReseedRequired / ErrRequestTooBig without touching the state.
	Generate(n int, additional []byte) ([]byte, error)
	// Reseed mixes fresh entropy in, or returns ErrEntropyLength without touching the state.
	Reseed(entropy, additional []byte) error
	// NeedReseed reports reseed_counter > reseed_interval (the time rule is the workload's business).
	NeedReseed() bool
	// Counter returns reseed_counter (1 after a (re)seed; Generate calls since then + 1).
	Counter() uint64
	// MaxRequest returns the largest request that is served, which is also what the package documents
	// for MaxBytesPerRequest(): one block in GM mode for Hash and CTR, PackageMaxRequest otherwise.
	MaxRequest() int
	// MinEntropy returns the smallest entropy input the documented bounds accept on reseed.
	MinEntropy() int
	Clone() Generator
	// State returns the working state for diagnostics.
	State() string
}

func cat(parts ...[]byte) []byte {
	var out []byte
	for _, p := range parts {
		out = append(out, p...)
	}
	return out
}

func be32(v int) []byte {
	var b [4]byte
	binary.BigEndian.PutUint32(b[:], uint32(v))
	return b[:]
}

// addMod returns (a + b...) mod 2^(8*len(a)) as a byte string of len(a).
func addMod(a []byte, bs ...*big.Int) []byte {
	s := new(big.Int).SetBytes(a)
	for _, b := range bs {
		s.Add(s, b)
	}
	m := new(big.Int).Lsh(big.NewInt(1), uint(8*len(a)))
	s.Mod(s, m)
	return s.FillBytes(make([]byte, len(a)))
}

func num(b []byte) *big.Int { return new(big.Int).SetBytes(b) }

// ---------------------------------------------------------------------------------------------
// Hash_DRBG (SP 800-90A Rev.1 10.1.1, Hash_df 10.3.1)

type HashDRBG struct {
	H             Hash
	Mode          Mode
	Level         Level
	SeedLen       int // SeedLenTable: 55 (440 bits) or 111 (888 bits)
	V, C          []byte
	ReseedCounter uint64
}

// HashDF is Hash_df of 10.3.1 with byte granularity.
func HashDF(h Hash, input []byte, nBytes int) []byte {
	var temp []byte
	counter := byte(1)
	for len(temp) < nBytes {
		temp = append(temp, h.Sum([]byte{counter}, be32(8*nBytes), input)...)
		counter++
	}
	return temp[:nBytes]
}

// SeedLenTable is seedlen of SP 800-90A Rev.1 section 10.1 table 2 in bytes (440 / 888 bits), written down per
// hash function as the table lists them - it is decided by the output length (outlen <= 256 bits: 440), not by the
// block length: SHA-512/224 and SHA-512/256 work on 1024-bit blocks and still use 440 bits. SM3 (outlen 256): GM/T 0105.
// The model takes seedlen from this table only; SelfTest verifies every row with a known answer.
var SeedLenTable = map[string]int{
	"sha1":       55,
	"sha224":     55,
	"sha512/224": 55,
	"sha256":     55,
	"sha512/256": 55,
	"sha384":     111,
	"sha512":     111,
	"sm3":        55,
}

// Hashes lists the hash functions the model knows (every row of SeedLenTable).
func Hashes() []Hash {
	return []Hash{SM3, SHA1, SHA224, SHA512_224, SHA256, SHA512_256, SHA384, SHA512}
}

var ErrUnknownHash = errors.New("ref/drbg: hash function without a seedlen in SP 800-90A table 2")

func hashSeedLen(h Hash) (int, bool) {
	n, ok := SeedLenTable[h.Name]
	return n, ok
}

// hashMin returns the documented minimum entropy and nonce lengths.
func hashMin(h Hash, m Mode) (int, int) {
	if m == GM {
		return h.Size, h.Size / 2
	}
	return 1, 1
}

// NewHash is Hash_DRBG_Instantiate_algorithm.
func NewHash(h Hash, mode Mode, level Level, entropy, nonce, pers []byte) (*HashDRBG, error) {
	me, mn := hashMin(h, mode)
	if len(entropy) < me {
		return nil, ErrEntropyLength
	}
	if len(nonce) < mn {
		return nil, ErrNonceLength
	}
	sl, ok := hashSeedLen(h)
	if !ok {
		return nil, ErrUnknownHash
	}
	d := &HashDRBG{H: h, Mode: mode, Level: level, SeedLen: sl}
	d.V = HashDF(h, cat(entropy, nonce, pers), d.SeedLen)
	d.C = HashDF(h, cat([]byte{0}, d.V), d.SeedLen)
	d.ReseedCounter = 1
	return d, nil
}

func (d *HashDRBG) Reseed(entropy, additional []byte) error {
	if len(entropy) < d.MinEntropy() {
		return ErrEntropyLength
	}
	var sm []byte
	if d.Mode == GM {
		sm = cat([]byte{1}, entropy, d.V, additional)
	} else {
		sm = cat([]byte{1}, d.V, entropy, additional)
	}
	d.V = HashDF(d.H, sm, d.SeedLen)
	d.C = HashDF(d.H, cat([]byte{0}, d.V), d.SeedLen)
	d.ReseedCounter = 1
	return nil
}

func (d *HashDRBG) Generate(n int, additional []byte) ([]byte, error) {
	if d.NeedReseed() {
		return nil, ErrReseedRequired
	}
	if n > d.MaxRequest() {
		return nil, ErrRequestTooBig
	}
	if len(additional) > 0 {
		w := d.H.Sum([]byte{2}, d.V, additional)
		d.V = addMod(d.V, num(w))
	}
	// Hashgen
	var out []byte
	data := append([]byte{}, d.V...)
	for len(out) < n {
		out = append(out, d.H.Sum(data)...)
		data = addMod(data, big.NewInt(1))
	}
	out = out[:n]
	hh := d.H.Sum([]byte{3}, d.V)
	d.V = addMod(d.V, num(hh), num(d.C), new(big.Int).SetUint64(d.ReseedCounter))
	d.ReseedCounter++
	return out, nil
}

func (d *HashDRBG) NeedReseed() bool { return d.ReseedCounter > d.Level.Interval }
func (d *HashDRBG) Counter() uint64  { return d.ReseedCounter }
func (d *HashDRBG) MaxRequest() int {
	if d.Mode == GM {
		return d.H.Size
	}
	return PackageMaxRequest
}
func (d *HashDRBG) MinEntropy() int { e, _ := hashMin(d.H, d.Mode); return e }
func (d *HashDRBG) Clone() Generator {
	c := *d
	c.V = append([]byte{}, d.V...)
	c.C = append([]byte{}, d.C...)
	return &c
}
func (d *HashDRBG) State() string {
	return fmt.Sprintf("V=%x C=%x reseed_counter=%d", d.V, d.C, d.ReseedCounter)
}

// ---------------------------------------------------------------------------------------------
// HMAC_DRBG (10.1.2)

type HMACDRBG struct {
	H             Hash
	Mode          Mode
	Level         Level
	K, V          []byte
	ReseedCounter uint64
}

func (d *HMACDRBG) update(provided []byte) {
	d.K = d.H.HMAC(d.K, d.V, []byte{0}, provided)
	d.V = d.H.HMAC(d.K, d.V)
	if len(provided) == 0 {
		return
	}
	d.K = d.H.HMAC(d.K, d.V, []byte{1}, provided)
	d.V = d.H.HMAC(d.K, d.V)
}

// NewHMAC is HMAC_DRBG_Instantiate_algorithm. GM/T 0105 does not define an HMAC
// generator; the package documents no minimum beyond "not empty" for instantiation.
func NewHMAC(h Hash, mode Mode, level Level, entropy, nonce, pers []byte) (*HMACDRBG, error) {
	if len(entropy) < 1 {
		return nil, ErrEntropyLength
	}
	if len(nonce) < 1 {
		return nil, ErrNonceLength
	}
	d := &HMACDRBG{H: h, Mode: mode, Level: level}
	d.K = make([]byte, h.Size)
	d.V = bytes.Repeat([]byte{1}, h.Size)
	d.update(cat(entropy, nonce, pers))
	d.ReseedCounter = 1
	return d, nil
}

func (d *HMACDRBG) Reseed(entropy, additional []byte) error {
	if len(entropy) < d.MinEntropy() {
		return ErrEntropyLength
	}
	d.update(cat(entropy, additional))
	d.ReseedCounter = 1
	return nil
}

func (d *HMACDRBG) Generate(n int, additional []byte) ([]byte, error) {
	if d.NeedReseed() {
		return nil, ErrReseedRequired
	}
	if n > d.MaxRequest() {
		return nil, ErrRequestTooBig
	}
	if len(additional) > 0 {
		d.update(additional)
	}
	var out []byte
	for len(out) < n {
		d.V = d.H.HMAC(d.K, d.V)
		out = append(out, d.V...)
	}
	out = out[:n]
	d.update(additional)
	d.ReseedCounter++
	return out, nil
}

func (d *HMACDRBG) NeedReseed() bool { return d.ReseedCounter > d.Level.Interval }
func (d *HMACDRBG) Counter() uint64  { return d.ReseedCounter }
func (d *HMACDRBG) MaxRequest() int  { return PackageMaxRequest }

// MinEntropy: the package documents outlen for a reseed in GM mode.
func (d *HMACDRBG) MinEntropy() int {
	if d.Mode == GM {
		return d.H.Size
	}
	return 1
}
func (d *HMACDRBG) Clone() Generator {
	c := *d
	c.K = append([]byte{}, d.K...)
	c.V = append([]byte{}, d.V...)
	return &c
}
func (d *HMACDRBG) State() string {
	return fmt.Sprintf("K=%x V=%x reseed_counter=%d", d.K, d.V, d.ReseedCounter)
}

// ---------------------------------------------------------------------------------------------
// CTR_DRBG with derivation function (10.2.1, Block_Cipher_df 10.3.2, BCC 10.3.3); ctr_len = blocklen

type CTRDRBG struct {
	B             Cipher
	Mode          Mode
	Level         Level
	Key, V        []byte
	ReseedCounter uint64
}

func (d *CTRDRBG) seedLen() int { return d.B.KeyLen + d.B.BlockLen }

// BCC is 10.3.3.
func BCC(enc func([]byte) []byte, blockLen int, data []byte) []byte {
	chain := make([]byte, blockLen)
	for i := 0; i+blockLen <= len(data); i += blockLen {
		in := make([]byte, blockLen)
		for j := range in {
			in[j] = chain[j] ^ data[i+j]
		}
		chain = enc(in)
	}
	return chain
}

// BlockCipherDF is Block_Cipher_df of 10.3.2 with byte granularity.
func BlockCipherDF(b Cipher, input []byte, nBytes int) []byte {
	s := cat(be32(len(input)), be32(nBytes), input, []byte{0x80})
	for len(s)%b.BlockLen != 0 {
		s = append(s, 0)
	}
	k := make([]byte, b.KeyLen)
	for i := range k {
		k[i] = byte(i)
	}
	enc := b.New(k)
	var temp []byte
	for i := 0; len(temp) < b.KeyLen+b.BlockLen; i++ {
		iv := make([]byte, b.BlockLen)
		copy(iv, be32(i))
		temp = append(temp, BCC(enc, b.BlockLen, cat(iv, s))...)
	}
	enc = b.New(temp[:b.KeyLen])
	x := temp[b.KeyLen : b.KeyLen+b.BlockLen]
	var out []byte
	for len(out) < nBytes {
		x = enc(x)
		out = append(out, x...)
	}
	return out[:nBytes]
}

// update is CTR_DRBG_Update (10.2.1.2); provided is seedlen bytes.
func (d *CTRDRBG) update(provided []byte) {
	enc := d.B.New(d.Key)
	var temp []byte
	for len(temp) < d.seedLen() {
		d.V = addMod(d.V, big.NewInt(1))
		temp = append(temp, enc(d.V)...)
	}
	temp = temp[:d.seedLen()]
	for i := range temp {
		temp[i] ^= provided[i]
	}
	d.Key = append([]byte{}, temp[:d.B.KeyLen]...)
	d.V = append([]byte{}, temp[d.B.KeyLen:]...)
}

func ctrMin(m Mode) (int, int) {
	if m == GM {
		return 32, 16
	}
	return 1, 1
}

// NewCTR is CTR_DRBG_Instantiate_algorithm (with derivation function).
func NewCTR(b Cipher, mode Mode, level Level, entropy, nonce, pers []byte) (*CTRDRBG, error) {
	me, mn := ctrMin(mode)
	if len(entropy) < me {
		return nil, ErrEntropyLength
	}
	if len(nonce) < mn {
		return nil, ErrNonceLength
	}
	d := &CTRDRBG{B: b, Mode: mode, Level: level}
	d.Key = make([]byte, b.KeyLen)
	d.V = make([]byte, b.BlockLen)
	d.update(BlockCipherDF(b, cat(entropy, nonce, pers), d.seedLen()))
	d.ReseedCounter = 1
	return d, nil
}

func (d *CTRDRBG) Reseed(entropy, additional []byte) error {
	if len(entropy) < d.MinEntropy() {
		return ErrEntropyLength
	}
	d.update(BlockCipherDF(d.B, cat(entropy, additional), d.seedLen()))
	d.ReseedCounter = 1
	return nil
}

func (d *CTRDRBG) Generate(n int, additional []byte) ([]byte, error) {
	if d.NeedReseed() {
		return nil, ErrReseedRequired
	}
	if n > d.MaxRequest() {
		return nil, ErrRequestTooBig
	}
	addl := make([]byte, d.seedLen())
	if len(additional) > 0 {
		addl = BlockCipherDF(d.B, additional, d.seedLen())
		d.update(addl)
	}
	enc := d.B.New(d.Key)
	var out []byte
	for len(out) < n {
		d.V = addMod(d.V, big.NewInt(1))
		out = append(out, enc(d.V)...)
	}
	out = out[:n]
	d.update(addl)
	d.ReseedCounter++
	return out, nil
}

func (d *CTRDRBG) NeedReseed() bool { return d.ReseedCounter > d.Level.Interval }
func (d *CTRDRBG) Counter() uint64  { return d.ReseedCounter }
func (d *CTRDRBG) MaxRequest() int {
	if d.Mode == GM {
		return d.B.BlockLen
	}
	return PackageMaxRequest
}
func (d *CTRDRBG) MinEntropy() int { e, _ := ctrMin(d.Mode); return e }
func (d *CTRDRBG) Clone() Generator {
	c := *d
	c.Key = append([]byte{}, d.Key...)
	c.V = append([]byte{}, d.V...)
	return &c
}
func (d *CTRDRBG) State() string {
	return fmt.Sprintf("Key=%x V=%x reseed_counter=%d", d.Key, d.V, d.ReseedCounter)
}

// ---------------------------------------------------------------------------------------------
// The reader wrapper (drbg.DrbgPrng) as the package documents it.

// Strength is the package's selectSecurityStrength: the number of entropy bytes per (re)seed.
func Strength(requested int) int {
	switch {
	case requested <= 14:
		return 14
	case requested <= 16:
		return 16
	case requested <= 24:
		return 24
	case requested <= 32:
		return 32
	}
	return requested
}

// Source is the entropy source as the wrapper sees it: one call per request of n bytes;
// ok=false when the source failed or returned fewer bytes.
type Source func(n int) (b []byte, ok bool)

var ErrSource = errors.New("ref/drbg: entropy source failed or was short")
var ErrStrength = errors.New("ref/drbg: invalid security strength")

// Prng models DrbgPrng: instantiate from strength bytes of entropy and strength/2 bytes of
// nonce; Read chains requests of at most MaxRequest() bytes and, when the generator asks for it,
// reseeds with strength fresh bytes and no additional input.
type Prng struct {
	G        Generator
	Src      Source
	Strength int
	Reseeds  int
	Requests int
}

// NewPrng: mk builds the generator from (entropy, nonce). needGMStrength is the documented
// "gm && securityStrength < 32 is invalid" rule of the Hash and CTR wrappers.
func NewPrng(src Source, requested int, needGMStrength bool, mk func(entropy, nonce []byte) (Generator, error)) (*Prng, error) {
	p := &Prng{Src: src, Strength: Strength(requested)}
	if needGMStrength && requested < 32 {
		return nil, ErrStrength
	}
	e, ok := src(p.Strength)
	if !ok {
		return nil, ErrSource
	}
	n, ok := src(p.Strength / 2)
	if !ok {
		return nil, ErrSource
	}
	g, err := mk(e, n)
	if err != nil {
		return nil, err
	}
	p.G = g
	return p, nil
}

// ReseedNow is the wrapper's reaction to a reseed request that the counter does not explain (GM
// mode: the reseed time interval elapsed): strength fresh bytes, no additional input.
func (p *Prng) ReseedNow() error {
	e, ok := p.Src(p.Strength)
	if !ok {
		return ErrSource
	}
	if err := p.G.Reseed(e, nil); err != nil {
		return err
	}
	p.Reseeds++
	return nil
}

// Read returns the bytes produced before an error together with the error (the package
// reports n=0 on error; the workload accepts any n up to len(produced)).
func (p *Prng) Read(n int) (produced []byte, err error) {
	max := p.G.MaxRequest()
	for len(produced) < n {
		k := n - len(produced)
		if k > max {
			k = max
		}
		out, err := p.G.Generate(k, nil)
		if err == ErrReseedRequired {
			e, ok := p.Src(p.Strength)
			if !ok {
				return produced, ErrSource
			}
			if err := p.G.Reseed(e, nil); err != nil {
				return produced, err
			}
			p.Reseeds++
			continue
		}
		if err != nil {
			return produced, err
		}
		p.Requests++
		produced = append(produced, out...)
	}
	return produced, nil
}

// ---------------------------------------------------------------------------------------------
// Self-validation

func unhex(s string) []byte {
	b, err := hex.DecodeString(s)
	if err != nil {
		panic(err)
	}
	return b
}

func hashByName(n string) (Hash, bool) {
	switch n {
	case "sha1.New":
		return SHA1, true
	case "sha256.New":
		return SHA256, true
	case "sha256.New224":
		return SHA224, true
	case "sha512.New":
		return SHA512, true
	case "sha512.New384":
		return SHA384, true
	case "sha512.New512_224":
		return SHA512_224, true
	case "sha512.New512_256":
		return SHA512_256, true
	case "sm3.New":
		return SM3, true
	}
	return Hash{}, false
}

func prefixEq(state []byte, want string) bool {
	w := unhex(want)
	return len(w) <= len(state) && bytes.Equal(state[:len(w)], w)
}

// SelfTest replays the NIST CAVP vectors and the GM/T 0105 samples (rows flagged gm) that the
// package's own table tests carry - instantiate, reseed, generate, generate with every
// intermediate working state - and checks HMAC over the abstract hash against crypto/hmac.
// It returns the number of vectors per mechanism/mode that were verified.
func SelfTest() (map[string]int, error) {
	seen := map[string]int{}
	// RFC 2104 construction against the standard library, key shorter / equal / longer than a block
	for _, kl := range []int{0, 1, 20, 64, 65, 200} {
		key := bytes.Repeat([]byte{0xa7}, kl)
		msg := []byte("verif hmac self test")
		m := hmac.New(sha256.New, key)
		m.Write(msg)
		if !bytes.Equal(SHA256.HMAC(key, msg[:5], msg[5:]), m.Sum(nil)) {
			return nil, fmt.Errorf("ref/drbg: HMAC construction differs from crypto/hmac for key length %d", kl)
		}
		if !bytes.Equal(SM3.HMAC(key, msg), refsm3.HMAC(key, msg)) {
			return nil, fmt.Errorf("ref/drbg: HMAC-SM3 differs from ref/sm3.HMAC for key length %d", kl)
		}
	}
	for i, v := range vectors {
		mode := NIST
		if v.gm {
			mode = GM
		}
		var g Generator
		var err error
		var st func() (a, b []byte) // (V, C|Key|K)
		switch v.mech {
		case "hash":
			h, ok := hashByName(v.alg)
			if !ok {
				return nil, fmt.Errorf("ref/drbg: vector %d: unknown hash %s", i, v.alg)
			}
			d, e := NewHash(h, mode, LevelOne, unhex(v.entropy), unhex(v.nonce), unhex(v.pers))
			g, err = d, e
			st = func() ([]byte, []byte) { return d.V, d.C }
		case "hmac":
			h, ok := hashByName(v.alg)
			if !ok {
				return nil, fmt.Errorf("ref/drbg: vector %d: unknown hash %s", i, v.alg)
			}
			d, e := NewHMAC(h, mode, LevelOne, unhex(v.entropy), unhex(v.nonce), unhex(v.pers))
			g, err = d, e
			st = func() ([]byte, []byte) { return d.V, d.K }
		case "ctr":
			var b Cipher
			switch {
			case v.alg == "aes.NewCipher" && v.keyLen == 16:
				b = AES128
			case v.alg == "aes.NewCipher" && v.keyLen == 24:
				b = AES192
			case v.alg == "aes.NewCipher" && v.keyLen == 32:
				b = AES256
			case v.alg == "sm4.NewCipher" && v.keyLen == 16:
				b = SM4
			default:
				return nil, fmt.Errorf("ref/drbg: vector %d: unknown cipher %s/%d", i, v.alg, v.keyLen)
			}
			d, e := NewCTR(b, mode, LevelOne, unhex(v.entropy), unhex(v.nonce), unhex(v.pers))
			g, err = d, e
			st = func() ([]byte, []byte) { return d.V, d.Key }
		}
		if err != nil {
			return nil, fmt.Errorf("ref/drbg: vector %d (%s %s): instantiate: %v", i, v.mech, v.alg, err)
		}
		check := func(step, wv, ws string) error {
			a, b := st()
			if !prefixEq(a, wv) {
				return fmt.Errorf("ref/drbg: vector %d (%s %s gm=%v): V after %s = %x want %s", i, v.mech, v.alg, v.gm, step, a, wv)
			}
			if !(v.mech == "hash" && ws == "") && !prefixEq(b, ws) {
				return fmt.Errorf("ref/drbg: vector %d (%s %s gm=%v): C/Key after %s = %x want %s", i, v.mech, v.alg, v.gm, step, b, ws)
			}
			return nil
		}
		if err := check("instantiate", v.v0, v.s0); err != nil {
			return nil, err
		}
		if err := g.Reseed(unhex(v.entropyReseed), unhex(v.addlReseed)); err != nil {
			return nil, fmt.Errorf("ref/drbg: vector %d: reseed: %v", i, err)
		}
		if err := check("reseed", v.v1, v.s1); err != nil {
			return nil, err
		}
		want := unhex(v.out)
		if _, err := g.Generate(len(want), unhex(v.addl1)); err != nil {
			return nil, fmt.Errorf("ref/drbg: vector %d: generate 1: %v", i, err)
		}
		if err := check("generate 1", v.v2, v.s2); err != nil {
			return nil, err
		}
		out, err := g.Generate(len(want), unhex(v.addl2))
		if err != nil {
			return nil, fmt.Errorf("ref/drbg: vector %d: generate 2: %v", i, err)
		}
		if !bytes.Equal(out, want) {
			return nil, fmt.Errorf("ref/drbg: vector %d (%s %s gm=%v): returned bits %x want %x", i, v.mech, v.alg, v.gm, out, want)
		}
		if err := check("generate 2", v.v3, v.s3); err != nil {
			return nil, err
		}
		seen[fmt.Sprintf("%s/%s/%v", v.mech, v.alg, mode)]++
	}
	// known answers computed with OpenSSL (vectors_openssl.go): the remaining rows of table 2
	for i, v := range opensslKATs {
		h, ok := hashByName(v.alg)
		if !ok {
			return nil, fmt.Errorf("ref/drbg: OpenSSL known answer %d: unknown hash %s", i, v.alg)
		}
		var g Generator
		var err error
		switch v.mech {
		case "hash":
			var d *HashDRBG
			d, err = NewHash(h, NIST, LevelOne, unhex(v.entropy), unhex(v.nonce), unhex(v.pers))
			if err == nil && (len(d.V) != SeedLenTable[h.Name] || len(d.C) != SeedLenTable[h.Name]) {
				return nil, fmt.Errorf("ref/drbg: OpenSSL known answer %d (%s): V/C of %d/%d bytes, table 2 says %d", i, v.alg, len(d.V), len(d.C), SeedLenTable[h.Name])
			}
			g = d
		case "hmac":
			g, err = NewHMAC(h, NIST, LevelOne, unhex(v.entropy), unhex(v.nonce), unhex(v.pers))
		default:
			return nil, fmt.Errorf("ref/drbg: OpenSSL known answer %d: unknown mechanism %s", i, v.mech)
		}
		if err != nil {
			return nil, fmt.Errorf("ref/drbg: OpenSSL known answer %d (%s %s): instantiate: %v", i, v.mech, v.alg, err)
		}
		if err := g.Reseed(unhex(v.entropyReseed), unhex(v.addlReseed)); err != nil {
			return nil, fmt.Errorf("ref/drbg: OpenSSL known answer %d: reseed: %v", i, err)
		}
		want := unhex(v.out)
		if _, err := g.Generate(len(want), unhex(v.addl1)); err != nil {
			return nil, fmt.Errorf("ref/drbg: OpenSSL known answer %d: generate 1: %v", i, err)
		}
		out, err := g.Generate(len(want), unhex(v.addl2))
		if err != nil {
			return nil, fmt.Errorf("ref/drbg: OpenSSL known answer %d: generate 2: %v", i, err)
		}
		if !bytes.Equal(out, want) {
			return nil, fmt.Errorf("ref/drbg: OpenSSL known answer %d (%s %s): returned bits %x want %x", i, v.mech, v.alg, out, want)
		}
		seen[fmt.Sprintf("%s/%s/%v", v.mech, v.alg, NIST)]++
	}
	// every row of table 2 (and SM3) must have been verified as Hash_DRBG and as HMAC_DRBG
	if len(Hashes()) != len(SeedLenTable) {
		return nil, errors.New("ref/drbg: Hashes() and SeedLenTable disagree")
	}
	for _, n := range []string{"sha1.New", "sha256.New224", "sha512.New512_224", "sha256.New", "sha512.New512_256", "sha512.New384", "sha512.New"} {
		for _, m := range []string{"hash", "hmac"} {
			if seen[m+"/"+n+"/nist"] == 0 {
				return nil, fmt.Errorf("ref/drbg: no known answer for %s over %s", m, n)
			}
		}
		h, _ := hashByName(n)
		if _, ok := SeedLenTable[h.Name]; !ok {
			return nil, fmt.Errorf("ref/drbg: %s has no row in SeedLenTable", h.Name)
		}
	}
	// every class the brief names must have been seen
	for _, k := range []string{"hash/sha256.New/nist", "hash/sm3.New/gm", "hmac/sha256.New/nist", "ctr/aes.NewCipher/nist", "ctr/sm4.NewCipher/gm", "ctr/sm4.NewCipher/nist"} {
		if seen[k] == 0 {
			return nil, fmt.Errorf("ref/drbg: no vector of class %s", k)
		}
	}
	// structural checks that vectors cannot give: refusal leaves the state untouched, the 9th
	// request at test level is refused, one block per request in GM mode.
	d, _ := NewHash(SM3, GM, LevelTest, make([]byte, 32), make([]byte, 16), nil)
	for k := 0; k < 8; k++ {
		if _, err := d.Generate(32, nil); err != nil {
			return nil, fmt.Errorf("ref/drbg: request %d refused at test level", k+1)
		}
	}
	before := d.State()
	if _, err := d.Generate(1, nil); err != ErrReseedRequired || d.State() != before {
		return nil, errors.New("ref/drbg: 9th request at test level not refused cleanly")
	}
	if err := d.Reseed(make([]byte, 31), nil); err != ErrEntropyLength || d.State() != before {
		return nil, errors.New("ref/drbg: short GM reseed not refused cleanly")
	}
	d.Reseed(make([]byte, 32), nil)
	before = d.State()
	if _, err := d.Generate(33, nil); err != ErrRequestTooBig || d.State() != before {
		return nil, errors.New("ref/drbg: GM request above one block not refused cleanly")
	}
	return seen, nil
}
