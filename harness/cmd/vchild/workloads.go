package main

// every workload package registers itself in its init function
import (
	_ "verifh/wl/c18"
)
