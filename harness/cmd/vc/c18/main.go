// Child binary for property C18.
package main

import (
	"verifh/childmain"
	_ "verifh/wl/c18"
)

func main() { childmain.Main() }
