// Child binary for property C12.
package main

import (
	"verifh/childmain"
	_ "verifh/wl/c12"
)

func main() { childmain.Main() }
