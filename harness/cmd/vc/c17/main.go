// Child binary for property C17.
package main

import (
	"verifh/childmain"
	_ "verifh/wl/c17"
)

func main() { childmain.Main() }
