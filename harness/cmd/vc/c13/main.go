// Child binary for property C13.
package main

import (
	"verifh/childmain"
	_ "verifh/wl/c13"
)

func main() { childmain.Main() }
