// Child binary for property C19.
package main

import (
	"verifh/childmain"
	_ "verifh/wl/c19"
)

func main() { childmain.Main() }
