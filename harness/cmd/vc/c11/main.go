// Child binary for property C11.
package main

import (
	"verifh/childmain"
	_ "verifh/wl/c11"
)

func main() { childmain.Main() }
