// Child binary for property C04.
package main

import (
	"verifh/childmain"
	_ "verifh/wl/c04"
)

func main() { childmain.Main() }
