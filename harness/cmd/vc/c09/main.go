// Child binary for property C09.
package main

import (
	"verifh/childmain"
	_ "verifh/wl/c09"
)

func main() { childmain.Main() }
