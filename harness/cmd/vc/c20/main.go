// Child binary for property C20.
package main

import (
	"verifh/childmain"
	_ "verifh/wl/c20"
)

func main() { childmain.Main() }
