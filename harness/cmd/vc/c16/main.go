// Child binary for property C16.
package main

import (
	"verifh/childmain"
	_ "verifh/wl/c16"
)

func main() { childmain.Main() }
