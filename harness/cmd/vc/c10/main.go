// Child binary for property C10.
package main

import (
	"verifh/childmain"
	_ "verifh/wl/c10"
)

func main() { childmain.Main() }
