// Child binary for property C06.
package main

import (
	"verifh/childmain"
	_ "verifh/wl/c06"
)

func main() { childmain.Main() }
