// Child binary for property C01.
package main

import (
	"verifh/childmain"
	_ "verifh/wl/c01"
)

func main() { childmain.Main() }
