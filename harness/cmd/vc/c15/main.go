// Child binary for property C15.
package main

import (
	"verifh/childmain"
	_ "verifh/wl/c15"
)

func main() { childmain.Main() }
