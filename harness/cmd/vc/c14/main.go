// Child binary for property C14.
package main

import (
	"verifh/childmain"
	_ "verifh/wl/c14"
)

func main() { childmain.Main() }
