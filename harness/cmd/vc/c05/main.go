// Child binary for property C05.
package main

import (
	"verifh/childmain"
	_ "verifh/wl/c05"
)

func main() { childmain.Main() }
