// Child binary for property C08.
package main

import (
	"verifh/childmain"
	_ "verifh/wl/c08"
)

func main() { childmain.Main() }
