// Child binary for property C07.
package main

import (
	"verifh/childmain"
	_ "verifh/wl/c07"
)

func main() { childmain.Main() }
