// Child binary for property C03.
package main

import (
	"verifh/childmain"
	_ "verifh/wl/c03"
)

func main() { childmain.Main() }
