// Child binary for property C02.
package main

import (
	"verifh/childmain"
	_ "verifh/wl/c02"
)

func main() { childmain.Main() }
