// Package childmain implements the child process of the verification harness: one process
// executes one workload in one build variant and one dispatch configuration.
package childmain

import (
	"flag"
	"fmt"
	"os"
	"strconv"
	"strings"
	"time"

	"github.com/emmansun/gmsm/verifhook"

	"verifh/mon"
	"verifh/wl/reg"
)

// Main is the entry point shared by every per-property child binary.
func Main() {
	var (
		wlName  = flag.String("workload", "", "workload name")
		seed    = flag.Uint64("seed", 1, "VERIF_SEED")
		tier    = flag.String("tier", "quick", "quick|thorough")
		shard   = flag.Int("shard", 0, "shard index")
		shards  = flag.Int("shards", 1, "number of shards")
		only    = flag.Int64("only", -1, "execute only this case number")
		after   = flag.Int64("resume-after", 0, "skip cases up to and including this number")
		journal = flag.String("journal", "", "journal file (JSONL, appended)")
		cur     = flag.String("cur", "", "current-case slot file")
		config  = flag.String("config", "", "dispatch configuration name (informational)")
		variant = flag.String("variant", "", "build variant name (informational)")
		dl      = flag.Duration("case-deadline", 30*time.Second, "bounded-progress limit per case")
		list    = flag.Bool("list", false, "list workloads")
	)
	flag.Parse()
	if *list {
		for _, n := range reg.Names() {
			w, _ := reg.Get(n)
			fmt.Println(n, w.Prop)
		}
		return
	}
	w, ok := reg.Get(*wlName)
	if !ok {
		fmt.Fprintln(os.Stderr, "unknown workload", *wlName)
		os.Exit(5)
	}
	// Prelude (plan key prelude=[...], env VERIF_PRELUDE): other workloads run first IN THIS PROCESS, a 1/k slice of
	// their quick cases, journal discarded - their verdicts belong to their own jobs. What they leave behind in
	// package-level state of the library (tables, pools, cached constants, lazily built singletons) is the
	// environment in which the main workload is then judged: construction and use ORDER between object kinds and
	// parameter choices becomes a workload dimension (seeded change c11-r7-m1: a MAC constructor patching a
	// package-level constant that the cipher constructor reads).
	if pre := os.Getenv("VERIF_PRELUDE"); pre != "" {
		k := 16
		if v, err := strconv.Atoi(os.Getenv("VERIF_PRELUDE_SHARDS")); err == nil && v > 0 {
			k = v
		}
		for i, name := range strings.Split(pre, ",") {
			pw, ok := reg.Get(name)
			if !ok {
				fmt.Fprintln(os.Stderr, "unknown prelude workload", name)
				os.Exit(5)
			}
			px := &mon.Ctx{Prop: pw.Prop, Workload: pw.Name, Config: *config, Variant: *variant, Seed: *seed, Tier: "quick",
				Shard: (int(*seed%1000) + *shard + i) % k, Shards: k, Only: -1,
				// no bounded-progress verdicts in a prelude (its workloads have their own jobs and deadlines, some of them
				// longer than the main workload's): the limit here only keeps a stuck process from living for ever
				CaseDeadline: 15 * time.Minute}
			if err := px.Open(os.DevNull, ""); err != nil {
				fmt.Fprintln(os.Stderr, "open prelude:", err)
				os.Exit(5)
			}
			pw.Run(px)
		}
	}
	x := &mon.Ctx{Prop: w.Prop, Workload: w.Name, Config: *config, Variant: *variant, Seed: *seed, Tier: *tier,
		Shard: *shard, Shards: *shards, Only: *only, After: *after, CaseDeadline: *dl}
	if err := x.Open(*journal, *cur); err != nil {
		fmt.Fprintln(os.Stderr, "open:", err)
		os.Exit(5)
	}
	x.Hello(verifhook.Dispatch())
	w.Run(x)
	x.Done()
}
