// Package childmain implements the child process of the verification harness: one process
// executes one workload in one build variant and one dispatch configuration.
package childmain

import (
	"flag"
	"fmt"
	"os"
	"time"

	"github.com/emmansun/gmsm/verifhook"

	"verifh/mon"
	"verifh/wl/reg"
)

// Main is the entry point shared by every per-property child binary.
func Main() {
	var (
		wlName  = flag.String("workload", "", "workload name")
		seed    = flag.Uint64("seed", 1, "VERIF_SEED")
		tier    = flag.String("tier", "quick", "quick|thorough")
		shard   = flag.Int("shard", 0, "shard index")
		shards  = flag.Int("shards", 1, "number of shards")
		only    = flag.Int64("only", -1, "execute only this case number")
		after   = flag.Int64("resume-after", 0, "skip cases up to and including this number")
		journal = flag.String("journal", "", "journal file (JSONL, appended)")
		cur     = flag.String("cur", "", "current-case slot file")
		config  = flag.String("config", "", "dispatch configuration name (informational)")
		variant = flag.String("variant", "", "build variant name (informational)")
		dl      = flag.Duration("case-deadline", 30*time.Second, "bounded-progress limit per case")
		list    = flag.Bool("list", false, "list workloads")
	)
	flag.Parse()
	if *list {
		for _, n := range reg.Names() {
			w, _ := reg.Get(n)
			fmt.Println(n, w.Prop)
		}
		return
	}
	w, ok := reg.Get(*wlName)
	if !ok {
		fmt.Fprintln(os.Stderr, "unknown workload", *wlName)
		os.Exit(5)
	}
	x := &mon.Ctx{Prop: w.Prop, Workload: w.Name, Config: *config, Variant: *variant, Seed: *seed, Tier: *tier,
		Shard: *shard, Shards: *shards, Only: *only, After: *after, CaseDeadline: *dl}
	if err := x.Open(*journal, *cur); err != nil {
		fmt.Fprintln(os.Stderr, "open:", err)
		os.Exit(5)
	}
	x.Hello(verifhook.Dispatch())
	w.Run(x)
	x.Done()
}
