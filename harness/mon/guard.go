package mon

import (
	"syscall"
)

// Guard is a read/write region surrounded by two inaccessible pages. Slices are
// handed out so that their end (Hi) or their start (Lo) abuts a guard page and
// with len == cap, so that an access one byte outside the slice on that side
// faults at once; the rest of the region is filled with a canary that Check
// verifies. This is the sanitizer for the hand-written assembly, which no
// compiler sanitizer instruments.
type Guard struct {
	mem    []byte // whole mapping
	rw     []byte // the accessible part
	lo, hi int    // the slice last handed out, as offsets into rw
}

const pageSize = 4096
const canary = 0xA5

// NewGuard maps a region able to hold slices of up to max bytes.
func NewGuard(max int) *Guard {
	n := (max + pageSize - 1) / pageSize * pageSize
	if n == 0 {
		n = pageSize
	}
	mem, err := syscall.Mmap(-1, 0, n+2*pageSize, syscall.PROT_READ|syscall.PROT_WRITE, syscall.MAP_ANON|syscall.MAP_PRIVATE)
	if err != nil {
		panic("mon.NewGuard: mmap: " + err.Error())
	}
	if err := syscall.Mprotect(mem[:pageSize], syscall.PROT_NONE); err != nil {
		panic("mon.NewGuard: mprotect: " + err.Error())
	}
	if err := syscall.Mprotect(mem[pageSize+n:], syscall.PROT_NONE); err != nil {
		panic("mon.NewGuard: mprotect: " + err.Error())
	}
	g := &Guard{mem: mem, rw: mem[pageSize : pageSize+n]}
	for i := range g.rw {
		g.rw[i] = canary
	}
	return g
}

func (g *Guard) refill() {
	for i := g.lo; i < g.hi; i++ {
		g.rw[i] = canary
	}
}

// Hi returns a slice of n bytes (len == cap) whose end abuts the upper guard page.
func (g *Guard) Hi(n int) []byte {
	g.refill()
	g.lo, g.hi = len(g.rw)-n, len(g.rw)
	return g.rw[g.lo:g.hi:g.hi]
}

// Lo returns a slice of n bytes (len == cap) whose start abuts the lower guard page.
func (g *Guard) Lo(n int) []byte {
	g.refill()
	g.lo, g.hi = 0, n
	return g.rw[0:n:n]
}

// Side returns Hi(n) or Lo(n).
func (g *Guard) Side(n int, hi bool) []byte {
	if hi {
		return g.Hi(n)
	}
	return g.Lo(n)
}

// Put returns a guarded copy of b.
func (g *Guard) Put(b []byte, hi bool) []byte {
	s := g.Side(len(b), hi)
	copy(s, b)
	return s
}

// Check reports the offset (relative to the slice start, may be negative) of the
// first canary byte that was modified outside the slice last handed out, and
// restores the canary. ok is true if nothing was touched.
func (g *Guard) Check() (off int, ok bool) {
	ok = true
	for i := 0; i < g.lo; i++ {
		if g.rw[i] != canary {
			if ok {
				off, ok = i-g.lo, false
			}
			g.rw[i] = canary
		}
	}
	for i := g.hi; i < len(g.rw); i++ {
		if g.rw[i] != canary {
			if ok {
				off, ok = i-g.lo, false
			}
			g.rw[i] = canary
		}
	}
	return
}

// Free unmaps the region.
func (g *Guard) Free() { syscall.Munmap(g.mem) }

// CheckGuards verifies the canaries of several guards for a case.
func (c *Case) CheckGuards(what string, gs ...*Guard) bool {
	ok := true
	for i, g := range gs {
		if off, fine := g.Check(); !fine {
			c.Fail("oob", "%s: write outside the slice handed over (buffer %d, offset %d relative to slice start)", what, i, off)
			ok = false
		}
	}
	c.x.events["guard_checks"] += int64(len(gs))
	return ok
}

// Off returns a slice of n bytes (len == cap) that starts off bytes after the lower
// guard page. Neither end abuts a guard page (canaries still surround it); its purpose
// is a start address with a chosen misalignment: Hi and Lo hand out 16-byte aligned
// starts whenever n is a multiple of 16, which hides aligned-load instructions used on
// caller memory.
func (g *Guard) Off(n, off int) []byte {
	g.refill()
	if off+n > len(g.rw) {
		off = len(g.rw) - n
	}
	g.lo, g.hi = off, off+n
	return g.rw[g.lo:g.hi:g.hi]
}

// HiOff is Hi shifted down by off bytes: the end is off bytes before the upper guard page.
func (g *Guard) HiOff(n, off int) []byte {
	return g.Off(n, len(g.rw)-n-off)
}
