package mon

import (
	"encoding/binary"
	"hash/fnv"
	"math/big"
)

// Rand is xoshiro256** seeded through splitmix64. All random choices of the
// harness come from instances of it; crypto/rand and math/rand are never used.
type Rand struct{ s [4]uint64 }

func splitmix(x *uint64) uint64 {
	*x += 0x9e3779b97f4a7c15
	z := *x
	z = (z ^ (z >> 30)) * 0xbf58476d1ce4e5b9
	z = (z ^ (z >> 27)) * 0x94d049bb133111eb
	return z ^ (z >> 31)
}

// NewRand derives a generator from a seed and any number of string/int labels.
func NewRand(seed uint64, labels ...any) *Rand {
	h := fnv.New64a()
	var b [8]byte
	binary.LittleEndian.PutUint64(b[:], seed)
	h.Write(b[:])
	for _, l := range labels {
		switch v := l.(type) {
		case string:
			h.Write([]byte(v))
			h.Write([]byte{0})
		case int:
			binary.LittleEndian.PutUint64(b[:], uint64(v))
			h.Write(b[:])
		case int64:
			binary.LittleEndian.PutUint64(b[:], uint64(v))
			h.Write(b[:])
		case uint64:
			binary.LittleEndian.PutUint64(b[:], v)
			h.Write(b[:])
		default:
			panic("mon.NewRand: unsupported label type")
		}
	}
	x := h.Sum64()
	r := &Rand{}
	for i := range r.s {
		r.s[i] = splitmix(&x)
	}
	return r
}

func rotl(x uint64, k uint) uint64 { return (x << k) | (x >> (64 - k)) }

func (r *Rand) Uint64() uint64 {
	res := rotl(r.s[1]*5, 7) * 9
	t := r.s[1] << 17
	r.s[2] ^= r.s[0]
	r.s[3] ^= r.s[1]
	r.s[1] ^= r.s[2]
	r.s[0] ^= r.s[3]
	r.s[2] ^= t
	r.s[3] = rotl(r.s[3], 45)
	return res
}

// Intn returns a value in [0,n). n must be > 0.
func (r *Rand) Intn(n int) int {
	if n <= 0 {
		panic("mon.Rand.Intn: n <= 0")
	}
	return int(r.Uint64() % uint64(n))
}

// Range returns a value in [lo,hi].
func (r *Rand) Range(lo, hi int) int { return lo + r.Intn(hi-lo+1) }

func (r *Rand) Bool() bool { return r.Uint64()&1 == 1 }

// Fill fills b with pseudo-random bytes.
func (r *Rand) Fill(b []byte) {
	for len(b) >= 8 {
		binary.LittleEndian.PutUint64(b, r.Uint64())
		b = b[8:]
	}
	if len(b) > 0 {
		var t [8]byte
		binary.LittleEndian.PutUint64(t[:], r.Uint64())
		copy(b, t[:])
	}
}

func (r *Rand) Bytes(n int) []byte {
	b := make([]byte, n)
	r.Fill(b)
	return b
}

// Read makes Rand an io.Reader that never fails.
func (r *Rand) Read(p []byte) (int, error) { r.Fill(p); return len(p), nil }

// Pick returns one element of a non-empty int slice.
func (r *Rand) Pick(v []int) int { return v[r.Intn(len(v))] }

// BigBelow returns a uniform value in [0,n).
func (r *Rand) BigBelow(n *big.Int) *big.Int {
	b := r.Bytes((n.BitLen()+7)/8 + 8)
	return new(big.Int).Mod(new(big.Int).SetBytes(b), n)
}

// Perm returns a permutation of 0..n-1.
func (r *Rand) Perm(n int) []int {
	p := make([]int, n)
	for i := range p {
		p[i] = i
	}
	for i := n - 1; i > 0; i-- {
		j := r.Intn(i + 1)
		p[i], p[j] = p[j], p[i]
	}
	return p
}
