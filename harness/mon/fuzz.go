package mon

// FuzzTarget is one target of a coverage-guided fuzzing stage (driver/gofuzz.py): the engine mutates Seeds under
// coverage feedback and calls F; F signals an input worth confirming by PANICKING (a library panic or fault, or the
// target's own oracle calling panic with a description). The stage only proposes such inputs; the property's child
// executes them again under the monitors (workload cNN.fuzzreplay) and only that execution is a verdict.
type FuzzTarget struct {
	Name  string
	Seeds [][]byte
	F     func(b []byte)
}
