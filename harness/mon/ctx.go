// Package mon is the monitor library of the verification harness: journal,
// case bookkeeping, violation records, panic capture, watchdog, PRNG, guard-page
// buffers and the scripted random source.
package mon

import (
	"bytes"
	"encoding/hex"
	"encoding/json"
	"fmt"
	"os"
	"runtime"
	"runtime/debug"
	"sort"
	"sync"
	"sync/atomic"
	"syscall"
	"time"
)

// Ctx is the per-child-process run context handed to a workload.
type Ctx struct {
	Prop     string
	Workload string
	Config   string // name of the dispatch configuration (informational; the env did the work)
	Variant  string
	Seed     uint64
	Tier     string // "quick" | "thorough"
	Shard    int
	Shards   int
	Only     int64 // >=0: execute only this case number
	After    int64 // execute only cases with number > After (resume after a crash)

	CaseDeadline time.Duration // per-case bounded-progress limit (watchdog)

	mu       sync.Mutex
	jf       *os.File
	cur      []byte // mmap'ed current-case slot
	n        int64  // cases generated (selected or not)
	executed int64
	trivial  int64
	classes  map[string]int64
	events   map[string]int64
	samples  []string
	viols    int64
	known    map[string]int64
	digests  int64
	incon    int64

	active     atomic.Int64 // case number currently executing, 0 if none
	activeAt   atomic.Int64 // unix nano when it began
	curDesc    atomic.Value // string
	maxViolLog int64
}

// Case is one generated case that was selected for execution in this process.
type Case struct {
	N       int64
	R       *Rand
	Desc    string
	x       *Ctx
	trivial bool
	failed  bool
	details map[string]any
}

const curSlotSize = 1 << 16

// Open prepares journal and current-case slot. paths may be empty (no files).
func (x *Ctx) Open(journalPath, curPath string) error {
	x.classes = map[string]int64{}
	x.events = map[string]int64{}
	x.known = map[string]int64{}
	x.maxViolLog = 200
	if x.Shards <= 0 {
		x.Shards = 1
	}
	if x.CaseDeadline == 0 {
		x.CaseDeadline = 30 * time.Second
	}
	debug.SetPanicOnFault(true)
	if journalPath != "" {
		f, err := os.OpenFile(journalPath, os.O_CREATE|os.O_WRONLY|os.O_APPEND, 0o644)
		if err != nil {
			return err
		}
		x.jf = f
	}
	if curPath != "" {
		f, err := os.OpenFile(curPath, os.O_CREATE|os.O_RDWR, 0o644)
		if err != nil {
			return err
		}
		if err := f.Truncate(curSlotSize); err != nil {
			return err
		}
		m, err := syscall.Mmap(int(f.Fd()), 0, curSlotSize, syscall.PROT_READ|syscall.PROT_WRITE, syscall.MAP_SHARED)
		if err != nil {
			return err
		}
		f.Close()
		x.cur = m
		for i := range x.cur {
			x.cur[i] = 0
		}
	}
	go x.watchdog()
	return nil
}

func (x *Ctx) emit(rec map[string]any) {
	b, err := json.Marshal(rec)
	if err != nil {
		b, _ = json.Marshal(map[string]any{"t": "error", "msg": "marshal: " + err.Error()})
	}
	b = append(b, '\n')
	x.mu.Lock()
	if x.jf != nil {
		x.jf.Write(b)
	} else {
		os.Stdout.Write(b)
	}
	x.mu.Unlock()
}

// Hello writes the first journal record.
func (x *Ctx) Hello(dispatch map[string]bool) {
	x.emit(map[string]any{"t": "hello", "prop": x.Prop, "workload": x.Workload, "config": x.Config,
		"variant": x.Variant, "seed": x.Seed, "tier": x.Tier, "shard": fmt.Sprintf("%d/%d", x.Shard, x.Shards),
		"dispatch": dispatch, "gomaxprocs": runtime.GOMAXPROCS(0), "pid": os.Getpid()})
}

// Thorough reports whether the thorough tier was requested.
func (x *Ctx) Thorough() bool { return x.Tier == "thorough" }

// Scale returns q in the quick tier and t in the thorough tier.
func (x *Ctx) Scale(q, t int) int {
	if x.Thorough() {
		return t
	}
	return q
}

// Begin registers the next generated case. It returns nil when the case is not
// to be executed by this process (other shard, resume point, --only filter); the
// caller must then skip it without consuming shared random state. The case
// description is written to the current-case slot before the library is entered.
func (x *Ctx) Begin(format string, args ...any) *Case {
	x.n++
	n := x.n
	if x.Only >= 0 {
		if n != x.Only {
			return nil
		}
	} else {
		if n <= x.After || int(n%int64(x.Shards)) != x.Shard {
			return nil
		}
	}
	desc := format
	if len(args) > 0 {
		desc = fmt.Sprintf(format, args...)
	}
	c := &Case{N: n, Desc: desc, x: x, R: NewRand(x.Seed, x.Workload, n)}
	x.executed++
	if x.cur != nil {
		hdr := fmt.Sprintf("%d\n", n)
		k := copy(x.cur[8:], hdr)
		k += copy(x.cur[8+k:], desc)
		if 8+k < len(x.cur) {
			x.cur[8+k] = 0
		}
	}
	x.curDesc.Store(desc)
	x.activeAt.Store(time.Now().UnixNano())
	x.active.Store(n)
	if len(x.samples) < 6 || (x.executed&(x.executed-1)) == 0 && len(x.samples) < 24 {
		x.samples = append(x.samples, fmt.Sprintf("#%d %s", n, trunc(desc, 400)))
	}
	return c
}

func trunc(s string, n int) string {
	if len(s) > n {
		return s[:n] + "..."
	}
	return s
}

// End closes the case (stops the watchdog clock for it).
func (c *Case) End() {
	c.x.active.Store(0)
	if c.trivial {
		c.x.trivial++
	}
}

// Trivial marks the case as trivial (empty input, identity); it is executed and
// checked but not counted as a distinct non-trivial case.
func (c *Case) Trivial() { c.trivial = true }

// Class records the class key the case belongs to (for distinct counting).
func (c *Case) Class(format string, args ...any) {
	if c.trivial {
		return
	}
	k := format
	if len(args) > 0 {
		k = fmt.Sprintf(format, args...)
	}
	if len(c.x.classes) < 300000 {
		c.x.classes[k]++
	} else if _, ok := c.x.classes[k]; ok {
		c.x.classes[k]++
	}
}

// Event adds n to a named event counter (oracle comparisons, reads logged, ...).
func (c *Case) Event(name string, n int) { c.x.events[name] += int64(n) }

// Event on the context, for events outside a case.
func (x *Ctx) Event(name string, n int) { x.events[name] += int64(n) }

// Detail attaches a value that is printed with a violation of this case.
func (c *Case) Detail(k string, v any) {
	if c.details == nil {
		c.details = map[string]any{}
	}
	if b, ok := v.([]byte); ok {
		v = hexTrunc(b)
	}
	c.details[k] = v
}

func hexTrunc(b []byte) string {
	if len(b) > 256 {
		return hex.EncodeToString(b[:256]) + fmt.Sprintf("...(%d bytes)", len(b))
	}
	return hex.EncodeToString(b)
}

// Fail records a violation of the property by this case.
func (c *Case) Fail(kind, format string, args ...any) {
	c.fail("", kind, format, args...)
}

// Known records a violation that a known-finding matcher (predicate on the case
// plus a model of the defective behaviour) has recognised. The driver suppresses
// it only if KNOWN_FINDINGS.txt lists id as an open finding.
func (c *Case) Known(id, kind, format string, args ...any) {
	c.fail(id, kind, format, args...)
}

func (c *Case) fail(known, kind, format string, args ...any) {
	c.failed = true
	x := c.x
	if known != "" {
		x.known[known]++
		if x.known[known] > 5 {
			return
		}
	} else {
		x.viols++
		if x.viols > x.maxViolLog {
			return
		}
	}
	msg := format
	if len(args) > 0 {
		msg = fmt.Sprintf(format, args...)
	}
	rec := map[string]any{"t": "viol", "n": c.N, "prop": x.Prop, "kind": kind, "msg": trunc(msg, 2000),
		"desc": trunc(c.Desc, 4000)}
	if known != "" {
		rec["known"] = known
	}
	if c.details != nil {
		rec["details"] = c.details
	}
	x.emit(rec)
}

// Failed reports whether a violation was recorded for this case.
func (c *Case) Failed() bool { return c.failed }

// Eq compares library output with the oracle's; a mismatch is a violation.
func (c *Case) Eq(what string, got, want []byte) bool {
	c.x.events["compare"]++
	if bytes.Equal(got, want) {
		return true
	}
	off := 0
	for off < len(got) && off < len(want) && got[off] == want[off] {
		off++
	}
	c.Fail("mismatch", "%s: got %s want %s (len %d/%d, first difference at %d)", what, hexTrunc(got), hexTrunc(want), len(got), len(want), off)
	return false
}

// Inconclusive records that the case could not be decided (never a violation).
func (c *Case) Inconclusive(format string, args ...any) {
	c.x.incon++
	c.x.emit(map[string]any{"t": "inconclusive", "n": c.N, "msg": fmt.Sprintf(format, args...)})
}

// PanicInfo describes a recovered panic.
type PanicInfo struct {
	Value any
	Stack string
}

func (p *PanicInfo) String() string { return fmt.Sprint(p.Value) }

// Try runs f and returns the recovered panic, if any, without judging it.
func Try(f func()) (p *PanicInfo) {
	defer func() {
		if r := recover(); r != nil {
			p = &PanicInfo{Value: r, Stack: string(debug.Stack())}
		}
	}()
	f()
	return nil
}

// Call runs f; a panic is recorded as a violation (kind "panic"; a memory fault
// outside a guarded buffer shows up here as kind "oob").
func (c *Case) Call(what string, f func()) bool {
	c.x.events["calls"]++
	p := Try(f)
	if p == nil {
		return true
	}
	kind := "panic"
	if e, ok := p.Value.(runtime.Error); ok {
		if _, isAddr := e.(interface{ Addr() uintptr }); isAddr {
			kind = "oob"
		}
	}
	c.Detail("stack", trunc(p.Stack, 3000))
	c.Fail(kind, "%s: panic: %v", what, p.Value)
	return false
}

// Digest publishes a value that the driver compares across configurations: every
// job of the same workload and shard must publish the same value for a key.
func (c *Case) Digest(key string, val []byte) {
	c.x.digests++
	c.x.emit(map[string]any{"t": "digest", "n": c.N, "k": key, "v": hex.EncodeToString(val)})
}

// Note writes a free-form observation record (not a verdict).
func (x *Ctx) Note(format string, args ...any) {
	x.emit(map[string]any{"t": "note", "msg": fmt.Sprintf(format, args...)})
}

// HarnessError reports a defect of the machinery (reference self-validation
// failed, ...). The driver turns it into exit code 2, never into a verdict.
func (x *Ctx) HarnessError(format string, args ...any) {
	x.emit(map[string]any{"t": "harness_error", "msg": fmt.Sprintf(format, args...)})
	x.Done()
	os.Exit(4)
}

// Done writes the final record.
func (x *Ctx) Done() {
	type kv struct {
		K string
		V int64
	}
	cl := x.classes
	rec := map[string]any{"t": "done", "generated": x.n, "cases": x.executed, "trivial": x.trivial,
		"violations": x.viols, "known": x.known, "events": x.events, "samples": x.samples,
		"digests": x.digests, "inconclusive": x.incon, "nclasses": len(cl)}
	keys := make([]string, 0, len(cl))
	for k := range cl {
		keys = append(keys, k)
	}
	sort.Strings(keys)
	rec["classes"] = keys
	x.emit(rec)
	if x.jf != nil {
		x.jf.Sync()
	}
}

func (x *Ctx) watchdog() {
	for {
		time.Sleep(500 * time.Millisecond)
		n := x.active.Load()
		if n == 0 {
			continue
		}
		at := x.activeAt.Load()
		if time.Duration(time.Now().UnixNano()-at) > x.CaseDeadline && x.active.Load() == n {
			buf := make([]byte, 1<<20)
			buf = buf[:runtime.Stack(buf, true)]
			d, _ := x.curDesc.Load().(string)
			x.emit(map[string]any{"t": "hang-suspect", "n": n, "desc": trunc(d, 4000), "stacks": trunc(string(buf), 20000)})
			os.Exit(3)
		}
	}
}
