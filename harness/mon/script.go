package mon

import (
	"errors"
	"io"
)

// ReadEvent is one Read call observed on a Script.
type ReadEvent struct {
	Want  int   // len(p)
	Off   int   // offset in the main stream before the call (-1 for a side-channel answer)
	N     int   // bytes returned
	Err   error // error returned
	Probe bool  // 1-byte read answered from the side channel (randutil.MaybeReadByte)
}

// ErrInjected is the custom error a Script can be told to return.
var ErrInjected = errors.New("verif: injected random source failure")

// FaultKind selects how a Script fails.
type FaultKind int

const (
	FaultNone          FaultKind = iota
	FaultEOF0                    // (0, io.EOF)
	FaultEOFPartial              // (k < len(p), io.EOF)
	FaultUnexpectedEOF           // (0, io.ErrUnexpectedEOF)
	FaultCustom                  // (0, ErrInjected)
	FaultShortThenErr            // (k < len(p), nil) then (0, ErrInjected)
)

func (k FaultKind) String() string {
	return [...]string{"none", "eof0", "eof-partial", "unexpected-eof", "custom", "short-then-err"}[k]
}

// Script is the scripted random source. It serves Stream (then, if Tail is set,
// bytes from Tail for ever; otherwise io.EOF), logs every Read, answers 1-byte
// reads from a side channel when ProbeSide is set (so that the position in the
// main stream does not depend on the coin flip of randutil.MaybeReadByte), and
// fails at the FailAt-th call of the main stream (0-based; -1 never).
type Script struct {
	Stream    []byte
	Tail      *Rand
	ProbeSide bool
	FailAt    int
	Fault     FaultKind
	MaxBytes  int // logical retry budget: > 0 aborts the call sequence after that many bytes

	Off    int
	Calls  int // main-stream calls so far
	Log    []ReadEvent
	Budget bool // set when MaxBytes was exceeded
	failed bool
	short  bool // the previous main-stream read was short: the next read continues it (io.ReadFull), even if it asks for 1 byte
}

// ErrBudget is returned once the logical budget is exhausted.
var ErrBudget = errors.New("verif: random source budget exhausted (unbounded retry?)")

func NewScript(stream []byte) *Script {
	return &Script{Stream: stream, ProbeSide: true, FailAt: -1}
}

func (s *Script) log(e ReadEvent) {
	if len(s.Log) < 4096 {
		s.Log = append(s.Log, e)
	}
}

func (s *Script) Read(p []byte) (int, error) {
	if s.ProbeSide && len(p) == 1 && !s.short {
		p[0] = 0
		s.log(ReadEvent{Want: 1, Off: -1, N: 1, Probe: true})
		return 1, nil
	}
	call := s.Calls
	s.Calls++
	ev := ReadEvent{Want: len(p), Off: s.Off}
	if s.failed {
		ev.Err = ErrInjected
		s.log(ev)
		return 0, ErrInjected
	}
	if s.MaxBytes > 0 && s.Off+len(p) > s.MaxBytes {
		s.Budget = true
		ev.Err = ErrBudget
		s.log(ev)
		return 0, ErrBudget
	}
	if s.FailAt >= 0 && call == s.FailAt {
		switch s.Fault {
		case FaultEOF0:
			ev.Err = io.EOF
		case FaultUnexpectedEOF:
			ev.Err = io.ErrUnexpectedEOF
		case FaultCustom:
			ev.Err = ErrInjected
			s.failed = true
		case FaultEOFPartial, FaultShortThenErr:
			k := len(p) / 2
			s.fill(p[:k])
			ev.N = k
			s.short = k > 0 && s.Fault == FaultShortThenErr
			if s.Fault == FaultEOFPartial {
				ev.Err = io.EOF
			}
			s.failed = true
			s.log(ev)
			return k, ev.Err
		}
		s.failed = true
		s.log(ev)
		return 0, ev.Err
	}
	n := s.fill(p)
	ev.N = n
	s.short = n > 0 && n < len(p)
	if n < len(p) {
		ev.Err = io.EOF
		if n > 0 {
			ev.Err = nil // short read; next call reports EOF
		}
	}
	s.log(ev)
	return n, ev.Err
}

func (s *Script) fill(p []byte) int {
	n := 0
	if s.Off < len(s.Stream) {
		n = copy(p, s.Stream[s.Off:])
	}
	if n < len(p) && s.Tail != nil {
		s.Tail.Fill(p[n:])
		n = len(p)
	}
	s.Off += n
	return n
}

// Consumed returns the number of main-stream bytes handed out.
func (s *Script) Consumed() int { return s.Off }
