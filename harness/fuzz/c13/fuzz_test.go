// Package c13fuzz is the coverage-guided fuzzing stage of property C13 (thorough tier; see driver/gofuzz.py).
// One invocation fuzzes ONE catalogued entry point (VERIF_FUZZ_TARGET = index into c13.FuzzTargets): the seed corpus is
// the entry point's valid artefacts, the fuzz function hands the engine's bytes to the entry point. A panic or a fault
// makes the engine record the input; the driver then lets the C13 child execute that input under its monitors.
package c13fuzz

import (
	"os"
	"runtime/debug"
	"strconv"
	"testing"

	"verifh/wl/c13"
)

func targets(tb testing.TB) []c13.FuzzTarget {
	seed := uint64(1)
	if s := os.Getenv("VERIF_SEED"); s != "" {
		if v, err := strconv.ParseUint(s, 10, 64); err == nil {
			seed = v
		}
	}
	ts, err := c13.FuzzTargets(seed)
	if err != nil {
		tb.Fatalf("seed artefacts: %v", err)
	}
	return ts
}

// TestFuzzTargets lists the targets for the driver.
func TestFuzzTargets(t *testing.T) {
	if os.Getenv("VERIF_FUZZ_LIST") == "" {
		t.Skip("driver only")
	}
	for i, x := range targets(t) {
		t.Logf("\nTARGET %d %s", i, x.Name)
	}
}

func FuzzC13(f *testing.F) {
	ts := os.Getenv("VERIF_FUZZ_TARGET")
	if ts == "" {
		f.Skip("VERIF_FUZZ_TARGET not set")
	}
	idx, err := strconv.Atoi(ts)
	all := targets(f)
	if err != nil || idx < 0 || idx >= len(all) {
		f.Fatalf("VERIF_FUZZ_TARGET=%q with %d targets", ts, len(all))
	}
	t := all[idx]
	for _, s := range t.Seeds {
		f.Add(s)
	}
	f.Add([]byte{})
	debug.SetPanicOnFault(true)
	f.Fuzz(func(_ *testing.T, b []byte) {
		t.F(b)
	})
}
