// Package c13fuzz is the coverage-guided fuzzing stage of property C13 (thorough tier; see driver/gofuzz.py).
// One invocation fuzzes ONE catalogued entry point (VERIF_FUZZ_TARGET = index into c13.FuzzTargets): the seed corpus is
// the entry point's valid artefacts, the fuzz function hands the engine's bytes to the entry point. A panic or a fault
// makes the engine record the input; the driver then lets the C13 child execute that input under its monitors.
package c13fuzz

import (
	"testing"

	"verifh/fuzz/kit"
	"verifh/mon"
	"verifh/wl/c13"
)

func targets(tb testing.TB) []mon.FuzzTarget {
	ts, err := c13.FuzzTargets(kit.Seed())
	if err != nil {
		tb.Fatalf("seed artefacts: %v", err)
	}
	return ts
}

func TestFuzzTargets(t *testing.T) { kit.List(t, targets(t)) }

func FuzzC13(f *testing.F) { kit.Fuzz(f, targets(f)) }
