// Package kit is the common part of the fuzz test packages harness/fuzz/cNN.
package kit

import (
	"os"
	"runtime/debug"
	"strconv"
	"testing"

	"verifh/mon"
)

// Seed is VERIF_SEED (default 1).
func Seed() uint64 {
	if s := os.Getenv("VERIF_SEED"); s != "" {
		if v, err := strconv.ParseUint(s, 10, 64); err == nil {
			return v
		}
	}
	return 1
}

// List prints the targets for the driver (VERIF_FUZZ_LIST=1).
func List(t *testing.T, ts []mon.FuzzTarget) {
	if os.Getenv("VERIF_FUZZ_LIST") == "" {
		t.Skip("driver only")
	}
	for i, x := range ts {
		t.Logf("\nTARGET %d %s", i, x.Name)
	}
}

// Fuzz runs the engine on the target selected by VERIF_FUZZ_TARGET.
func Fuzz(f *testing.F, all []mon.FuzzTarget) {
	ts := os.Getenv("VERIF_FUZZ_TARGET")
	if ts == "" {
		f.Skip("VERIF_FUZZ_TARGET not set")
	}
	idx, err := strconv.Atoi(ts)
	if err != nil || idx < 0 || idx >= len(all) {
		f.Fatalf("VERIF_FUZZ_TARGET=%q with %d targets", ts, len(all))
	}
	t := all[idx]
	for _, s := range t.Seeds {
		f.Add(s)
	}
	f.Add([]byte{})
	debug.SetPanicOnFault(true)
	f.Fuzz(func(_ *testing.T, b []byte) {
		t.F(b)
	})
}
