"""Coverage-guided fuzzing stage (Go native fuzzing) of a check.

A plan may carry  fuzz=dict(pkg="./fuzz/c13", func="FuzzC13", execs=(quick, thorough), replay_wl="c13.fuzzreplay",
variant="asm", parallel=4).  The stage compiles the fuzz test of the harness module once, asks it for the number of
targets, and runs the fuzzing engine for a fixed number of executions per target (a count, never a time budget).
The engine only PROPOSES inputs: every input it reports as failing (a panic, a fault or a hung worker) is written to
run/replays/fuzz-inputs/ and handed to the property's child binary as one more job (workload `replay_wl`), which
executes it deterministically under the usual monitors (recover, SetPanicOnFault, guard pages, watchdog). Only what that
child observes becomes a verdict; an input that does not reproduce there is an inconclusive note. The fuzzing engine's
own random choices do not depend on VERIF_SEED: the stage widens the exploration, it is not part of the replay key."""
import concurrent.futures as cf
import glob
import hashlib
import os
import re
import shutil
import subprocess
import time


def _parse_corpus_file(path):
    """go test fuzz v1 corpus file with a single []byte argument -> bytes (None if it cannot be read)."""
    try:
        txt = open(path, "r", errors="replace").read()
    except OSError:
        return None
    m = re.search(r'^\[\]byte\((.*)\)\s*$', txt, re.M | re.S)
    if not m:
        return None
    lit = m.group(1).strip()
    try:
        if lit.startswith('"'):
            # Go interpreted string literal: \xNN, \n, \t, \\, \" ... ; use Python's unicode_escape on bytes carefully
            body = lit[1:-1]
            out = bytearray()
            i = 0
            while i < len(body):
                ch = body[i]
                if ch != "\\":
                    out += ch.encode("utf-8")
                    i += 1
                    continue
                n = body[i + 1]
                simple = {"n": 10, "t": 9, "r": 13, "\\": 92, '"': 34, "'": 39, "a": 7, "b": 8, "f": 12, "v": 11}
                if n in simple:
                    out.append(simple[n]); i += 2
                elif n == "x":
                    out.append(int(body[i + 2:i + 4], 16)); i += 4
                elif n == "u":
                    out += chr(int(body[i + 2:i + 6], 16)).encode("utf-8"); i += 6
                elif n == "U":
                    out += chr(int(body[i + 2:i + 10], 16)).encode("utf-8"); i += 10
                elif n in "01234567":
                    out.append(int(body[i + 1:i + 4], 8)); i += 4
                else:
                    return None
            return bytes(out)
        if lit.startswith("`"):
            return lit[1:-1].encode("utf-8")
    except (ValueError, IndexError):
        return None
    return None


def fuzz_stage(spec, prop, tier, harness, bindir, rundir, keepdir, goenv, modflag, log, ncpu):
    """returns (job_lines, events, inconclusive_notes, harness_errors)"""
    events, incon, herr, lines = {}, [], [], []
    execs = spec["execs"][0 if tier == "quick" else 1]
    if not execs:
        return lines, events, incon, herr
    testbin = os.path.join(bindir, "fuzz-%s.test" % prop.lower())
    # -fuzz at build time adds the coverage instrumentation the engine needs for its guidance
    cmd = ["go", "test"] + modflag + ["-c", "-tags", "verif", "-fuzz", "^%s$" % spec["func"], "-o", testbin, spec["pkg"]]
    p = subprocess.run(cmd, cwd=harness, env=goenv, stdout=subprocess.PIPE, stderr=subprocess.STDOUT, text=True)
    if p.returncode != 0:
        herr.append("fuzz test binary does not build: " + p.stdout[-1500:])
        return lines, events, incon, herr
    env = dict(goenv)
    env["VERIF_FUZZ_LIST"] = "1"
    p = subprocess.run([testbin, "-test.run", "^TestFuzzTargets$", "-test.v"], env=env, stdout=subprocess.PIPE, stderr=subprocess.STDOUT, text=True)
    names = re.findall(r"^\s*TARGET (\d+) (.*)$", p.stdout, re.M)
    if not names:
        herr.append("fuzz test binary lists no targets: " + p.stdout[-800:])
        return lines, events, incon, herr
    par = int(spec.get("parallel", 4))
    inputs = os.path.join(keepdir, "fuzz-inputs")
    os.makedirs(inputs, exist_ok=True)

    def one(item):
        idx, name = item
        wd = os.path.join(rundir, "fuzz", idx)
        shutil.rmtree(wd, ignore_errors=True)
        os.makedirs(wd, exist_ok=True)
        e = dict(goenv)
        e["VERIF_FUZZ_TARGET"] = idx
        e.pop("VERIF_FUZZ_LIST", None)
        t0 = time.time()
        try:
            q = subprocess.run([testbin, "-test.run", "^$", "-test.fuzz", "^%s$" % spec["func"], "-test.fuzztime", "%dx" % execs,
                                "-test.fuzzcachedir", os.path.join(wd, "cache"), "-test.parallel", str(par)],
                               cwd=wd, env=e, stdout=subprocess.PIPE, stderr=subprocess.STDOUT, text=True, timeout=int(spec.get("wall", 3600)))
            out, rc = q.stdout, q.returncode
        except subprocess.TimeoutExpired as ex:
            out, rc = (ex.stdout or b"").decode("utf-8", "replace") if isinstance(ex.stdout, bytes) else (ex.stdout or ""), "timeout"
        st = re.findall(r"execs: (\d+) .*?new interesting: (\d+) \(total: (\d+)\)", out)
        ex_n, ni, tot = (int(st[-1][0]), int(st[-1][1]), int(st[-1][2])) if st else (0, 0, 0)
        crashers = sorted(glob.glob(os.path.join(wd, "testdata", "fuzz", spec["func"], "*")))
        return dict(idx=idx, name=name, rc=rc, execs=ex_n, new=ni, corpus=tot, crashers=crashers, tail=out[-1200:], wall=time.time() - t0)

    with cf.ThreadPoolExecutor(max_workers=max(1, ncpu // par)) as ex:
        results = list(ex.map(one, names))
    events["fuzz_targets"] = len(results)
    events["fuzz_execs"] = sum(r["execs"] for r in results)
    events["fuzz_new_interesting_inputs"] = sum(r["new"] for r in results)
    events["fuzz_corpus_entries"] = sum(r["corpus"] for r in results)
    for r in results:
        if r["rc"] == "timeout":
            incon.append("fuzz target %s (%s): wall-clock guard fired after %d executions" % (r["idx"], r["name"], r["execs"]))
        elif r["rc"] != 0 and not r["crashers"]:
            incon.append("fuzz target %s (%s): engine exited with %s without a failing input: %s" % (r["idx"], r["name"], r["rc"], r["tail"][-300:]))
        for cpath in r["crashers"]:
            data = _parse_corpus_file(cpath)
            if data is None:
                incon.append("fuzz target %s (%s): failing input %s could not be decoded" % (r["idx"], r["name"], cpath))
                continue
            h = hashlib.sha1(data).hexdigest()[:16]
            ipath = os.path.join(inputs, "%s-t%s-%s.bin" % (prop, r["idx"], h))
            with open(ipath, "wb") as f:
                f.write(data)
            events["fuzz_failing_inputs_proposed"] = events.get("fuzz_failing_inputs_proposed", 0) + 1
            lines.append(dict(wl=spec["replay_wl"], configs=["avx2"], variant=spec.get("variant", "asm"), shards=(1, 1), floor=0,
                              env={"VERIF_FUZZ_TARGET": r["idx"], "VERIF_FUZZ_INPUT": ipath}, deadline=None, procs=None,
                              fuzz_note="proposed by the fuzzing engine for target %s (%s)" % (r["idx"], r["name"])))
    log("fuzz stage: %d targets, %d executions, %d new interesting inputs, %d failing inputs proposed" % (
        len(results), events["fuzz_execs"], events["fuzz_new_interesting_inputs"], events.get("fuzz_failing_inputs_proposed", 0)))
    return lines, events, incon, herr
