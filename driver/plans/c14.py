# plan and claim for C14 (key serialisations); J and both are injected by driver/plan.py
_CFG = ["avx2", "noaes", "purego"]
_TIERS = ["avx2", "avx", "sse", "scalar", "aesni1", "noclmul", "noaes", "nobmi2", "noadx", "purego"]

PLAN = dict(
    level="exploration",
    rule="keys are built from chosen scalars (1, 2, largest valid, top byte zero, two top bytes zero, low byte zero, public "
         "coordinate with a leading zero byte, seeded random) for SM2, ecdh, ECDSA P-224..P-521, SM9 (six kinds) plus two fixed "
         "RSA keys; cases are the product key x container (x cipher x KDF x salt size x work factor x password kind for the "
         "password-based ones); every container is decoded by every decoder that takes it, opened by an independent reference "
         "and, for negatives, offered with wrong passwords / wrong unwrapping keys / every single-byte substitution / "
         "out-of-range scalars; every encrypter / options / decoder-parameter object the API lets a caller keep is also "
         "driven through histories of 2-3 calls with different keys and passwords; every self-describing container (and the "
         "same followed by trailing octets) is also handed to every decoder of the library (refused or the same key); "
         "c14.pbes also runs the option products the main grid leaves out - KDF identifier (PKCS#5 PBKDF2 / ShangMi PBKDF) x all "
         "8 PRFs x scheme identifier (PBES2 / ShangMi PBES) x the way the encrypter is built (NewPBESEncrypter, "
         "NewSMPBESEncrypterWithKDF, pkcs8.Opts literal around constructor-made or literal PBKDF2Opts) x a cut of 6 ciphers - and "
         "parameter extremes (salt 1/127/128/256 octets x iteration counts 127/128/255/256/32768, scrypt N/r/p up to 256/127/128) "
         "for PBKDF2, ShangMi PBKDF, scrypt and PBES1; wherever a PRF is the DEFAULT of its KDF identifier the reference writes "
         "the container in both encodings (prf present / left out) and the library must open both; "
         "c14.assembled: the honest containers of two keys A and B written by the library are taken apart and every mixture of "
         "their parts re-encoded (SEC1 scalar / curve / point, PKCS#8 outer algorithm and curve / inner ECPrivateKey, the same "
         "inside encrypted PKCS#8, SM9 key / master public key under either algorithm identifier, SM2 enveloped key symmetric "
         "key / public key / encrypted scalar, CFCA encrypted key / certificate / password), same-curve and cross-curve pairs: "
         "a decoder returns an error or the consistent key of the container's scalar ([d]G recomputed independently), the "
         "protected containers always an error; which of two conflicting curve names wins and foreign SM9 master public keys "
         "are counted as observations; "
         "c14.alias: every decoder of every container and key kind is run inside a caller history - container (and password) "
         "loaded into caller-owned buffers with dirty spare capacity, decoded twice (one key left untouched until the end), "
         "the buffers reused for the container of a second key and decoded again, then zeroised - with the known-key oracle "
         "and every deterministic encoder re-applied to the decoded objects after each step and the untouched key finally "
         "used; every encoder's returned slice and the byte arguments of the password-taking encoders are overwritten and "
         "used a second time; c14.tiers: a cut through every container whose bytes come from tier-dispatched code (SM2 "
         "enveloped key and CSRResponse, CFCA blob and escrow key, PBES2 with SM4-ECB/CBC/GCM, ShangMi PBES, legacy PEM SM4-CBC, plain "
         "containers) x key kinds, plus PrivateKeyInfos with an attributes field of 128 consecutive lengths (all block "
         "counts modulo 8 and all byte tails) in both directions against the reference, plus alteration sweeps, executed in "
         "ten dispatch configurations with every library-written container compared across them; distinct = distinct class keys (configuration | container / algorithm choice / key shape / "
         "password kind, for alteration sweeps: container / DER element / outcome)",
    jobs=both("c14.plain", _CFG + ["ia32"], shards=(2, 8), floor=100)
    + both("c14.pbes", _CFG + ["ia32"], shards=(4, 16), floor=1000)
    + both("c14.reuse", _CFG, shards=(2, 8), floor=100)
    + both("c14.pem", _CFG, shards=(2, 8), floor=100)
    + both("c14.wrap", _CFG, shards=(2, 8), floor=50)
    + both("c14.tamper", _CFG, shards=(2, 8), floor=20)
    + both("c14.range", _CFG + ["ia32"], shards=(1, 4), floor=20)
    + both("c14.interop", _CFG, shards=(1, 1), floor=10)
    # containers re-encoded from the parts of two honest containers (redundant information in conflict)
    + both("c14.assembled", _CFG + ["ia32"], shards=(2, 4), floor=50)
    # the caller's buffers (container, password, returned slices) overwritten / reused after every decoder and encoder
    + both("c14.alias", ["avx2", "purego"], shards=(2, 8), floor=100)
    # every implementation tier of SM4 (avx2 / avx / sse / aesni1 / noclmul / noaes / purego), SM3 (+ scalar) and of the
    # SM2 / SM9 arithmetic (nobmi2 / noadx) behind the containers, on a cheap cut through all of them
    + both("c14.tiers", _TIERS, shards=(1, 2), floor=1000),
    assumptions=[
        "the reference models in harness/ref/pbes (PBES1/PBES2/PBKDF2/legacy PEM/CFCA/SM4 modes over ref/sm3, ref/sm4 and the "
        "standard library; validated against RFC 6070 / RFC 7914 vectors and 20 containers written by OpenSSL 3.5) and "
        "harness/ref/ec are right; scrypt itself is taken from golang.org/x/crypto",
        "PBES1 with MD2 or RC2 has no independent model: round trip and wrong passwords only, RC2 pinned by two OpenSSL files",
        "for PBKDF2/scrypt a password and the same password followed by zero bytes are the same HMAC key, so such pairs are "
        "not counted as wrong passwords",
        "a panic on an altered container is recorded as an observation only (hostile bytes are property C13)",
    ],
)

CLAIM = dict(
    text="Runtime monitoring of every key container of the library: each SM2/ecdh/ECDSA/RSA/SM9 key, built from a scalar the "
         "generator knows (edge and leading/trailing-zero shapes), is written with every offered container and option "
         "(SEC1, PKCS#8, PKIX, PKCS#1, SM9 raw/compressed/ASN.1/PEM, PKCS#8 under 12 ciphers x 10 KDF choices + ShangMi PBES + 6 PBES1 "
         "schemes x salt sizes x work factors x password kinds, 6 legacy PEM ciphers, SM2 enveloped key also inside a GM/T 0092 "
         "CSRResponse, CFCA blob; the decode-only CFCA escrow key is written by the reference in its three textual forms), decoded by every "
         "decoder and compared by Equal, scalar bytes and an independently computed public point; encrypted containers are also "
         "opened by an independent reference implementation and reference-written containers by the library; wrong passwords and "
         "wrong unwrapping keys must never return a key (nor panic); every single-byte substitution of GCM-protected PKCS#8, SM2 "
         "enveloped keys and CFCA blobs must be refused inside the protected spans and may elsewhere only give the identical key; "
         "every reusable object (pkcs.PBES1 values, PBES2 / ShangMi / scrypt option objects, pkcs8.DefaultOpts, Opts literals, "
         "pkcs.PBES2Params, returned KDFParameters) writes or opens several containers in a row with different keys and passwords, "
         "each container judged as if written by a fresh object and against the other passwords of its history; "
         "scalars 0, n-1 (SM2), n, n+1, all-ones, negative (SM9 INTEGER) placed in valid structures by the harness' encoder must "
         "be refused by every decoder, each next to a valid control; every self-describing container, also with trailing octets, "
         "offered to all 21 decoders gives an error or the same key. Rarely combined options: both PBKDF2 identifiers x 8 PRFs x "
         "both scheme identifiers x every way of building the encrypter, salt / iteration / scrypt parameters across the DER length "
         "and INTEGER boundaries, a PRF equal to the identifier's DEFAULT read in both encodings. Conflicting redundancy: containers "
         "re-encoded from the parts of two honest containers (scalar of A next to the point, curve name, master public key, "
         "certificate or wrapped key of B, also inside encrypted PKCS#8) decode to an error or to the internally consistent key of "
         "the scalar they hold, SM2 enveloped keys and CFCA blobs only to an error. Input-buffer independence: for every decoder of every "
         "container and key kind (79 decoder x form pairs, all PBES schemes and PEM ciphers in rotation, SM2 enveloped key, "
         "CSRResponse, CFCA blob, CFCA escrow key) the decoded key is re-examined (known-key oracle, Equal, every deterministic encoder) after the "
         "caller reused its container / password buffers for another key and after it zeroised them, a key never touched before "
         "the wipe is examined and used (sign / agree / derive user key / unwrap) afterwards, slices returned by encoders, by "
         "DecryptPEMBlock and the KDFParameters are overwritten resp. re-derived, and encoder arguments are overwritten and reused. "
         "Exploration over the listed product in the avx2, noaes and purego configurations (plain, pbes, range also as a 32-bit "
         "build); the tier-dispatched code behind the containers (SM4 in avx2 / avx / sse / aesni1 / noclmul / noaes / purego, SM3 "
         "incl. scalar, SM2 and SM9 arithmetic without BMI2 / ADX) is executed on a cut through all SM4-encrypting containers at "
         "every block count modulo 8, with container bytes compared across all configurations.",
    design_ref="DESIGN.md 6 (C14)",
    note="trusted: harness/ref/pbes, ref/ec, ref/sm3, ref/sm4, Go standard library crypto and encoding/asn1, x/crypto scrypt, "
         "OpenSSL 3.5 vectors; PBES1-MD2/RC2 only self-consistent; passwords beyond the listed kinds are sampled",
    technique="round-trip oracle with known keys (re-applied along caller histories that overwrite and reuse buffers) + "
              "differential reference decoder/encoder + accept-set monitor for negatives + cross-configuration transcript",
)
