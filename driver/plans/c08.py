# plan and claim for C08 (SM2 key agreement); J and both are injected by driver/plan.py
_CFG = ["avx2", "noadx", "purego"]
_CFG_EC = ["avx2", "avx", "noadx", "purego"]   # avx: cpu.avx2=off selects the SSE table-select / point-routine epilogues of sm2ec

PLAN = dict(
    level="exploration",
    rule="a case is one complete protocol session (static and ephemeral scalars, identities, key length, confirmation mode, "
         "API path) or one candidate peer point presented at every protocol step; sessions come from a grid of structured "
         "edge scalars (1, 2, n-2, n-1, limb and 2^k boundaries), from static keys constructed so that the unreduced implicit "
         "signature d + x~*r hits n-1, n (t=0, U=V=O), n+1, 2^256-1, 2^256, ..., from static keys tied to the ephemeral key "
         "(P = [x~]R: the peer's addition is a doubling; P = -[x~]R: the sum is O and both must refuse), from ephemeral points whose x coordinate is "
         "extreme in the bits x~ keeps (bounded search over small multiples of G), from identity lengths 0 (default) .. 8191 "
         "and 8192+ (must fail), key lengths 1..200 and a few longer, and from seeded random draws; distinct = distinct class "
         "keys (generator / confirmation mode / key-length class / identity classes / API path), none is trivial",
    jobs=both("c08.agree", _CFG_EC + ["ia32"], shards=(8, 16), floor=100)
         + both("c08.confirm", _CFG, shards=(4, 8), floor=10)
         + both("c08.peers", _CFG_EC, shards=(4, 8), floor=50)
         + both("c08.ecdh", _CFG_EC + ["ia32"], shards=(4, 8), floor=50)
         + both("c08.implicitsig", _CFG + ["ia32"], shards=(1, 2), floor=20),
    assumptions=["harness/ref/sm2kx (GB/T 32918.3 on math/big affine arithmetic of ref/ec and the bitwise SM3 of ref/sm3) is right: "
                 "validated at every start against the recommended-curve example of GB/T 32918.5 / GM/T 0003.5 (public keys, ZA, ZB, "
                 "RA, RB, key, S1/SB, S2/SA) and the three vectors of the repository's tests, and by U = V on every session",
                 "in three of four sessions the caller's buffers (byte inputs of every constructor, identities, returned slices) are "
                 "overwritten (zeros / 0xFF / random) as soon as the call has returned; results must still equal the reference of the original values",
                 "ephemeral scalars are injected through the scripted random source (32 bytes consumed, checked), so both "
                 "implementations and the reference see identical inputs"],
)

CLAIM = dict(
    text="Runtime monitoring of the SM2 key agreement in both implementations: every generated session is executed through "
         "sm2.KeyExchange (NewKeyExchange/SetPeerParameters, InitKeyExchange, RepondKeyExchange, ConfirmResponder, ConfirmInitiator) "
         "and through ecdh (NewPrivateKey/GenerateKey, SM2MQV, SM2SharedKey, SM2ZA, plain ECDH) with identical scalars, and "
         "every value on the wire and every derived value (RA, RB, U/V, ZA, ZB, key, SB, SA) is compared with an independent "
         "exact-integer reference of GB/T 32918.3; sessions with U = O must be refused by both parties; for all four (initiator, responder) genSignature "
         "combinations the genuine confirmation values are accepted and every single-byte alteration and several semantically "
         "wrong non-empty values are presented to fresh protocol objects and must be refused whatever the verifying party's own "
         "flag is; invalid peer points (infinity, off-curve, other curve, coordinate >= p incl. non-canonical forms of valid "
         "points, negative/oversized integers, malformed encodings, all single-bit flips of valid encodings) are presented at "
         "each step where a peer value enters (static key, RA, RB, byte decoders) and must yield an error, never a key or a "
         "panic. Exploration over the listed generators, on the ADX, non-ADX, non-AVX2 (SSE) and pure-Go back ends.",
    design_ref="DESIGN.md 6 (C08)",
    note="trusted: harness/ref/sm2kx, ref/ec, ref/sm3, math/big; an empty (absent) confirmation value means 'no confirmation' "
         "by the API's contract and is not treated as a forgery; nil coordinates and foreign Curve objects are caller errors, not peer data",
    technique="differential reference monitor + accept-set monitor on peer points and confirmation values + panic monitor + scripted random source",
)
