# plan and claim for C08 (SM2 key agreement); J and both are injected by driver/plan.py
_CFG = ["avx2", "noadx", "purego"]
_CFG_EC = ["avx2", "avx", "noadx", "purego"]   # avx: cpu.avx2=off selects the SSE table-select / point-routine epilogues of sm2ec

PLAN = dict(
    level="exploration",
    rule="a case is one complete protocol session (static and ephemeral scalars, identities, key length, confirmation mode, "
         "API path) or one candidate peer point presented at every protocol step; sessions come from a grid of structured "
         "edge scalars (1, 2, n-2, n-1, limb and 2^k boundaries), from static keys constructed so that the unreduced implicit "
         "signature d + x~*r hits n-1, n (t=0, U=V=O), n+1, 2^256-1, 2^256, ..., from static keys tied to the ephemeral key "
         "(P = [x~]R: the peer's addition is a doubling; P = -[x~]R: the sum is O and both must refuse), from ephemeral points whose x coordinate is "
         "extreme in the bits x~ keeps (bounded search over small multiples of G), from identity lengths 0 (default) .. 8191 "
         "and 8192+ (must fail), key lengths 1..200 and a few longer, and from seeded random draws; "
         "c08.history: a case is one object history - two or three parties with ONE long-lived key object each per implementation "
         "(*sm2.PrivateKey from three constructors, *ecdh.PrivateKey, the public-key objects their peers hold, a hash object) and "
         "30-45 operations drawn from the case PRNG: sessions opened between any ordered pair (a party with itself, one party in both "
         "roles), up to three sessions alive and advancing interleaved on one key object, InitKeyExchange / RepondKeyExchange called "
         "again on one object, SetPeerParameters after construction, refused calls (invalid RA/RB, wrong SB/SA, exhausted random "
         "source, identity too long, invalid static key, step before SetPeerParameters, second SetPeerParameters) followed by the "
         "honest step on the same objects, Destroy() of either protocol object at every stage (and twice), ephemeral scalars and "
         "their ecdh key objects reused, nil / empty / explicit (also the explicit default) identities mixed, every caller-owned "
         "byte slice overwritten after the call in three of four histories; finally every session alive is completed, everything is "
         "destroyed and fresh sessions are run on the same key objects; "
         "c08.encodings: a case is one session seen from one party (own scalars known, the peer given by its points, also points "
         "with tiny x or y whose unreduced forms fit 32 bytes) in which every encoded input is offered in every form: points (peer "
         "static key, peer ephemeral key, own static key as sPub, the MQV point) to ecdh.NewPublicKey and sm2.NewPublicKey as 04||x||y, "
         "compressed with the right and with the other parity tag, hybrid with either tag, x+p / y+p, wrong lengths for the tag, each "
         "also inside a dirty buffer; the static scalar to ecdh/sm2.NewPrivateKey as 32 bytes, 00||d, stripped, 64 bytes; identities "
         "(nil, empty non-nil, zero-length slice of a dirty buffer, exact, dirty spare capacity, middle of a dirty buffer) and "
         "confirmation values (dirty spare capacity) at NewKeyExchange, SetPeerParameters, SM2SharedKey, SM2ZA, CalculateZA, "
         "ConfirmResponder, ConfirmInitiator; "
         "distinct = distinct class "
         "keys (generator / confirmation mode / key-length class / identity classes / API path; for histories: parties x overwrite "
         "mode x identity mix, and every situation the history went through), none is trivial",
    jobs=both("c08.agree", _CFG_EC + ["ia32"], shards=(8, 16), floor=100)
         + both("c08.confirm", _CFG, shards=(4, 8), floor=10)
         + both("c08.peers", _CFG_EC, shards=(4, 8), floor=50)
         + both("c08.ecdh", _CFG_EC + ["ia32"], shards=(4, 8), floor=50)
         + both("c08.implicitsig", _CFG + ["ia32"], shards=(1, 2), floor=20)
         # object histories are about state kept in Go objects, not about a dispatch tier: one assembly and one generic (32-bit) build
         + both("c08.history", ["avx2", "ia32"], shards=(4, 8), floor=40)
         # alternative encodings: the decoders differ per build (assembly / generic / 32-bit), not per dispatch tier
         + both("c08.encodings", ["avx2", "purego", "ia32"], shards=(2, 4), floor=40),
    assumptions=["encodings: PublicKey.Equal may say false for two different encodings of one point (documented), it must not say true "
                 "for different points; Bytes() of an object made from an alternative encoding may be any SEC1 form with canonical "
                 "coordinates that denotes the point; an accepted alternative encoding whose later use returns an error counts as a "
                 "late refusal; a hybrid encoding with the inconsistent parity tag, if accepted, is taken to denote (x, y)",
                 "harness/ref/sm2kx (GB/T 32918.3 on math/big affine arithmetic of ref/ec and the bitwise SM3 of ref/sm3) is right: "
                 "validated at every start against the recommended-curve example of GB/T 32918.5 / GM/T 0003.5 (public keys, ZA, ZB, "
                 "RA, RB, key, S1/SB, S2/SA) and the three vectors of the repository's tests, and by U = V on every session",
                 "in three of four sessions the caller's buffers (byte inputs of every constructor, identities, returned slices) are "
                 "overwritten (zeros / 0xFF / random) as soon as the call has returned; results must still equal the reference of the original values",
                 "ephemeral scalars are injected through the scripted random source (32 bytes consumed, checked), so both "
                 "implementations and the reference see identical inputs",
                 "histories: nothing is demanded from a KeyExchange object after its Destroy(), nor from the peer object of a destroyed "
                 "one when the two were wired by pointer (the *ecdsa.PublicKey a KeyExchange returns is its own state, which Destroy is "
                 "documented to clear); after a refused step the same step is repeated honestly (state of a refused call is not relied "
                 "on, except after the documented refusal of a second SetPeerParameters); an honest SetPeerParameters after a refused "
                 "one may be refused too ('can be called only once') - observation; what an object does when the caller ignores a "
                 "refused SetPeerParameters is an observation; whether an exhausted random source is reported is C12's clause"],
)

CLAIM = dict(
    text="Runtime monitoring of the SM2 key agreement in both implementations: every generated session is executed through "
         "sm2.KeyExchange (NewKeyExchange/SetPeerParameters, InitKeyExchange, RepondKeyExchange, ConfirmResponder, ConfirmInitiator) "
         "and through ecdh (NewPrivateKey/GenerateKey, SM2MQV, SM2SharedKey, SM2ZA, plain ECDH) with identical scalars, and "
         "every value on the wire and every derived value (RA, RB, U/V, ZA, ZB, key, SB, SA) is compared with an independent "
         "exact-integer reference of GB/T 32918.3; sessions with U = O must be refused by both parties; for all four (initiator, responder) genSignature "
         "combinations the genuine confirmation values are accepted and every single-byte alteration and several semantically "
         "wrong non-empty values are presented to fresh protocol objects and must be refused whatever the verifying party's own "
         "flag is; invalid peer points (infinity, off-curve, other curve, coordinate >= p incl. non-canonical forms of valid "
         "points, negative/oversized integers, malformed encodings, all single-bit flips of valid encodings) are presented at "
         "each step where a peer value enters (static key, RA, RB, byte decoders) and must yield an error, never a key or a "
         "panic; so must keys of NIST curves labelled with their own Curve object (valid there, not on the SM2 curve). "
         "Object histories (c08.history): on long-lived key objects of both implementations, sessions are interleaved, restarted, "
         "failed and retried, late-bound through SetPeerParameters and destroyed at every stage while the caller overwrites its "
         "buffers; every honest step of every session of the history must give the reference's RA, RB, SB, SA and key in both "
         "implementations, every dishonest step must be refused, a step before the peer parameters are known must be refused, and "
         "at the end the caller's key objects must be unchanged (scalar, public key, Equal/Public/Curve laws of the ecdh objects). "
         "Alternative encodings (c08.encodings), accept-set: an entry point that takes encoded input either refuses an alternative "
         "encoding of a valid value or, if it accepts it, everything derived from the accepted object (Bytes(), Equal soundness, ZA, "
         "MQV point, shared key, SB/SA, plain ECDH, in the byte-oriented and - for sm2.NewPublicKey - the big-integer implementation) "
         "equals the one-sided GB/T 32918.3 reference for the point / scalar / identity the encoding DENOTES (-P for the other parity "
         "tag), i.e. for encodings of the true value what the peer and the other implementation derive; encodings that denote "
         "nothing must be refused, the canonical encoding must be accepted, and no call may write to the caller's buffer or its "
         "spare capacity. "
         "Exploration over the listed generators, on the ADX, non-ADX, non-AVX2 (SSE), pure-Go and 32-bit back ends.",
    design_ref="DESIGN.md 6 (C08)",
    note="trusted: harness/ref/sm2kx, ref/ec, ref/sm3, math/big; an empty (absent) confirmation value means 'no confirmation' "
         "by the API's contract and is not treated as a forgery; nil coordinates and SM2 points mislabelled with a foreign Curve object are "
         "caller errors, not peer data (a key of a foreign curve labelled with that curve is peer data and must be refused); rejection "
         "sampling of the ephemeral scalar is decided by C12, the range checks of ecdh/sm2.NewPrivateKey by C05",
    technique="differential reference monitor + accept-set monitor on peer points and confirmation values + model-based object-history "
              "exploration + panic monitor + scripted random source",
)
