# plan and claim for C16 (PKCS#7 / CFCA messages); J and both are injected by driver/plan.py
_ENV = {"GOGC": "800"}          # the sweeps allocate heavily; fewer collections, same verdicts
_CFG = ["avx2", "noaes"]        # asm variant; "purego" is added as its own variant below


# Every line carries the 120 s case deadline: a mixed-order (.after) job inherits the deadline of its main workload and
# runs slices of ALL other C16 workloads first in the same process, the alteration sweeps among them (seconds of CPU per
# case, far beyond the 30 s default on a loaded machine).
_DL = "120s"


def _both(wl, shards, floor, deadline=None, cfg=_CFG):
    deadline = deadline or _DL
    return [J(wl, cfg, "asm", shards, floor=floor, env=_ENV, procs=2, deadline=deadline),
            J(wl, ["purego"], "purego", shards, floor=floor, env=_ENV, procs=2, deadline=deadline)]


# "noaes" changes the SM4 / GCM back end only (checked with the hello records: sm4.supportsAES and zuc.supportsAES flip,
# nothing of SM2 / SM3 / bigmod does), so it is used where content ciphers run: the envelope workloads.
_SIG = ["avx2"]


PLAN = dict(
    level="exploration",
    rule="messages are generated from templates that rotate through mode (attached / detached / digest-only, with / without "
         "authenticated attributes) x (key, digest) pairs (SM2-SM3, SM2 key handed over as ecdsa key, ECDSA P-256/P-384 and "
         "RSA-1024/2048 with SHA-1/256/384/512) x 1-3 signers x options (chain, skipped certificates, extra signed/unsigned "
         "attributes, extra certificate, GM/T or PKCS#7 OIDs, cfca wrappers) x verification path (no trust store, trust store, "
         "trust store at a fixed time); envelopes: content length (0..100 and every 16-byte boundary +-1 up to 1040) x every "
         "content cipher of the pkcs package x 10 producing APIs x 1-3 recipients (SM2, RSA; ASN.1 and CFCA-legacy key "
         "encodings, issuer+serial and key-identifier addressing) or a pre-shared key; alteration sweeps apply all four "
         "substitutions (^01, ^80, 00, ff; identity mutants skipped) to every byte of a message; DER objects are every element "
         "of every produced message plus generated trees with all length-octet boundaries; object histories: one parsed object "
         "(or one builder) receives a scripted prefix (verify, alter p7.Content in place, restore, replace, resize; recipient A, "
         "stranger, recipient B, A; right/wrong/right key; add, Finish, Finish, add, Finish) followed by a seeded random walk over "
         "content operations x the five Verify* variants / the decrypt attempts, every step compared with a freshly parsed object; "
         "builders also RemoveUnauthenticatedAttributes / RemoveAuthenticatedAttributes followed by Finish; options: no-attribute "
         "signers with a signature identifier chosen through SetEncryptionAlgorithm (rsaEncryption, the curve, SM2-1), recipients "
         "named by the key identifier derived from the key (RFC 5280 method 1) opened with a certificate that lacks the extension, "
         "caller-provided Session (New*EnvelopedDataWithSession / ParseWithSession), digest-only signing of a short digest "
         "(refusal or a verifying message). Caller buffers: EVERY byte argument of every producing call in every workload (content, "
         "digest, pre-shared key) is handed over in a buffer whose shape is drawn per call - exact, dirty spare capacity of "
         "pad-1 / pad / pad+1 / 15 / 16 / 17 / 32 / 4096 bytes, a window into a live buffer, a three-index slice inside one, guard "
         "page at the end or the start - the caller's memory is compared with a private copy after every library call (bytes "
         "visible through len, in front of the slice or behind cap: violation; bytes in [len:cap]: counted), the caller overwrites "
         "its buffers after the last Add* call (coin) and always after the producing call, and every oracle compares with the private "
         "original; c16.buffers.* enumerate that product: 16 producing routes (10 envelope APIs, EnvelopedData builders in all four "
         "recipient encodings, with a Session) x 12 content ciphers x 14 buffer shapes, 95 SignedData templates (all modes, 1-3 "
         "signers, cfca wrappers) x shapes, overwrite points after the constructor / after the last Add* / after Finish, Finish "
         "output overwritten before the next Finish, message, detached content / digest and pre-shared key of the consuming calls "
         "in shaped buffers, a returned plaintext overwritten before the same parsed object decrypts again. Parsing side "
         "(c16.parsebuf.*): the encoded message - every SignedData template (all modes, cfca wrappers), every envelope route x "
         "content cipher (EnvelopedData in the four recipient encodings, with a Session / ParseWithSession, EncryptedData, "
         "SignedAndEnvelopedData, cfca envelopes), contents up to 70000 bytes, as DER and in the BER forms all-indefinite / "
         "long-form lengths / random forms / constructed content string - is parsed from a caller buffer of every shape (exact, "
         "spare capacity 1 / 16 / 4096, windows, three-index slices, guard page at either end) and from a private copy (the twin); "
         "the buffer is audited after Parse and after every consuming call, then overwritten (every byte inverted, or another valid "
         "message of the same description, signers / recipients and length - found among up to three builds - received into it), "
         "then every value reachable from the parsed object (reflective walk: Content, Certificates, CRLs, Signers, recipient keys, "
         "ciphertext, IV ...) and the result of every consuming operation (Verify, VerifyWithChain, VerifyWithChainAtTime, "
         "VerifyAsDigest, VerifyAsDigestWithChain, GetOnlySigner, UnmarshalSignedAttribute, reading Content; Decrypt / DecryptCFCA / "
         "DecryptAndVerify per recipient, DecryptAndVerifyOnlyOne, stranger and mismatched certificate / key pairs, DecryptUsingPSK "
         "right / other key, GetRecipients) is compared with the twin's; slices returned before the overwrite must keep their "
         "bytes; the next message parsed from the reused buffer must be that message; the one-call cfca readers are audited and "
         "what they return must survive the overwrite. All other workloads parse through one shared receive buffer that is inverted "
         "as soon as Parse returned, so their oracles judge objects whose input buffer is gone. End-entity keys, serial numbers and "
         "contents come from the case PRNG; a case is non-trivial unless marked (empty DER content); distinct = distinct class "
         "keys (configuration | api / mode / OID family / verification path / signer (key-digest-attributes) list or "
         "api / cipher / recipient kinds | content-length class)",
    jobs=_both("c16.signed.alter", (8, 16), 100, "120s", _SIG)
    + _both("c16.signenv.alter", (3, 12), 20, "120s")
    + _both("c16.env.roundtrip", (2, 6), 1000)
    + _both("c16.signed.roundtrip", (1, 4), 500, None, _SIG)
    + _both("c16.history.signed", (2, 8), 300, None, _SIG)
    + _both("c16.history.env", (1, 4), 300)
    + _both("c16.history.builder", (1, 2), 100, None, _SIG)
    + _both("c16.buffers.env", (1, 4), 1000)
    + _both("c16.buffers.signed", (1, 2), 300, None, _SIG)
    + _both("c16.parsebuf.env", (1, 4), 300)
    + _both("c16.parsebuf.signed", (1, 2), 200, None, _SIG)
    + [J("c16.sha1", ["sha1ok"], "asm", (1, 4), floor=20, env=_ENV, procs=2, deadline="120s"),
       J("c16.ber.der", ["avx2"], "asm", (1, 2), floor=1000, env=_ENV, procs=2, deadline=_DL),
       J("c16.ber.variants", ["avx2"], "asm", (1, 2), floor=100, env=_ENV, procs=2, deadline=_DL)],
    assumptions=[
        "the library draws signature nonces, content keys and IVs from crypto/rand.Reader and the signing time from the clock; "
        "the harness points crypto/rand.Reader at a per-case PRNG, the clock is not controlled: a replay re-creates a message "
        "of the same shape, not the same bytes. No verdict depends on either (certificates are valid 2020-2049).",
        "semantic equality of an altered message that still verifies is judged on: content bytes; per signer the ordered "
        "(type, value encoding) list of authenticated attributes, the signature value, the parsed public key compared by "
        "value, the digest/signature algorithm as far as verification uses it (the five RSA PKCS#1 v1.5 identifiers are one "
        "algorithm; the digest identifier counts when it is used to hash: attributes present and content supplied, or RSA); with "
        "a trust store also TBSCertificate, signature algorithm and signature value of the signer certificate. Every signer of "
        "the altered message must be a signer of the original (a SignerInfo can be dropped: PKCS#7 does not bind the set).",
        "panics inside parsers on altered bytes are counted, not judged (property C13)",
        "a reader does not touch the message buffer while Parse or a call on the parsed object runs, only between calls; "
        "a caller does not touch the content buffer while a builder call runs; between the constructor and AddSigner a change "
        "of the buffer may or may not be picked up (SignedData and SignedAndEnvelopedData keep the slice): both are accepted",
        "a curve identifier (P-256 / P-384 / P-521) in the place of a signature algorithm means ECDSA with the hash of the "
        "digest identifier, whatever the curve named: the three are one algorithm for the semantic comparison, as the five RSA "
        "identifiers are",
        "a recipient named by key identifier is intended for every certificate of that key: one without the SubjectKeyIdentifier "
        "extension stands for the SHA-1 identifier of the key (what the library computes)",
        "an ECDSA digest-only signature binds only the leftmost order-length bits of a longer digest (FIPS 186-4 6.4); the "
        "wrong-digest check flips a bit inside that part",
        "a pre-shared key of an unauthenticated cipher (CBC, ECB) that differs from the right one may yield garbage without "
        "an error when the padding happens to validate (counted); returning the original content, or no error under an "
        "authenticated cipher (GCM), is a violation. DES keys are varied in non-parity bits only.",
    ],
)

CLAIM = dict(
    text="Runtime monitoring of pkcs7 and cfca message handling: honest SignedData / EnvelopedData / EncryptedData / "
         "SignedAndEnvelopedData over the option product parse, verify and decrypt for every intended recipient; every "
         "single-byte substitution of ~250 (quick) / ~4000 (thorough) signed or signed-and-enveloped messages per configuration either fails or leaves "
         "content, authenticated attributes, signature value, signer key (with a trust store: the signer certificate) unchanged; "
         "strangers, impostor certificates, recipient certificates paired with other keys and other pre-shared keys never get the "
         "content and get an error; the BER normaliser is the identity on every DER element produced and on generated DER trees, "
         "and indefinite-length / long-form / constructed-string BER variants of honest messages normalise to the DER original "
         "or to something that parses to the same content; on one parsed object verdicts and plaintexts of a sequence of "
         "Verify* / Decrypt* calls interleaved with changes of p7.Content equal those of freshly parsed objects, and every Finish "
         "output of one builder parses and verifies / opens. No producing or consuming call changes a byte the caller can see "
         "through the slices it handed over (content, digest, pre-shared key, message, detached content) or outside them, whatever "
         "the capacity or placement of the buffer, and no produced message or parsed result depends on a caller buffer after the "
         "last call that takes it returned, or on a slice the library returned earlier. The same holds for the parsing side: once "
         "Parse / ParseWithSession (or a cfca reader) has returned, the parsed object - every value it holds and the result of every "
         "Verify* / Decrypt* / accessor call - equals that of a twin parsed from a private copy, whatever the caller does to the buffer "
         "the message was in (inverted, refilled with another valid message of the same length, parsed from again), for DER and BER "
         "input in every buffer shape; no parsing or consuming call writes into that buffer, and nothing a call returned lives in it. "
         "Observed without verdict (the API promises "
         "neither): writes into spare capacity [len:cap] (the CBC / ECB padding is appended there), builders keeping the content by "
         "reference between constructor and AddSigner (every use must then show the value at construction or at call time, "
         "consistently). Exploration: soundness is decided on the "
         "single-byte substitution class only.",
    design_ref="DESIGN.md 6 (C16)",
    note="trusted: Go crypto/x509-style parsing inside smx509 for the PKI the harness builds with smx509.CreateCertificate, "
         "encoding/asn1, the harness's structural DER reader (self-tested at start), the generator's own fields as oracle",
    technique="round-trip laws + semantic-equality-under-alteration monitor + recipient/non-recipient accept-set + DER fixed-point monitor (verif hook VerifBER2DER) + caller-buffer audit (private copies, guard pages) + twin-object comparison after the input buffer was overwritten",
)
