# plan and claim for C03 (cipher modes over SM4); J and both are injected by driver/plan.py
_ASM = ["avx2", "avx", "sse", "aesni1", "noaes", "noclmul"]
PLAN = dict(
    level="exploration",
    rule="oneshot: nested enumeration mode (ECB, CBC, CFB, OFB, CTR, XTS, GB-XTS, BC, OFBNLF, HCTR) x direction x every admissible "
         "length up to 1040 bytes (block modes: multiples of 16; stream modes 0..1040; XTS 16..1040; HCTR 16..400 quick / 1040 thorough) "
         "x IV kind (random; CTR additionally all-ones and 2^32-d, 2^64-d, 2^128-d with d in 1..40; XTS tweak and sector constructors) "
         "x buffer placement (hi: every buffer ends at a guard page; lo: starts at one; mis: src, dst, key and IV/tweak start at rotating "
         "offsets from {1, 8, 16, 24, 31} with src != dst, so that an aligned load/store on caller memory faults) x alias mode (disjoint, in place, dst longer; rotated over the lengths in the quick tier for the "
         "byte-granular modes), plus seeded long messages up to 64 KiB; every case runs the fused, the generic and (XTS, HCTR) the "
         "batched library path on the same input, compares each output with the reference and decrypts the fused ciphertext again. "
         "stream: histories on ONE mode object, mode x direction x partition kind (unit-at-a-time, batch-boundary sizes +-1, random, "
         "random with empty calls, two calls, head/body/tail) x length list, output compared with the one-call reference after every "
         "call, each call from its own guarded buffers (hi / lo / misaligned with another offset pair per call), alternately in place. setiv: histories on one CBC / BC / OFBNLF object with SetIV between segments of 1..40 blocks (fused and generic path; the caller's IV slice is overwritten after SetIV returned): every segment must equal the definition applied to that segment under the IV set last. short: calls every mode refuses (destination 1, 15, 16, 17, n/2, n bytes shorter than a source of n bytes, n over the bulk-loop phases; block modes also sources of 17..300 bytes that are not whole blocks) on the fused, generic and batched paths with the destination ending / starting at a guard page: whatever the call does, nothing outside the two slices may be touched. Keys, IVs, data and cut points come from the case PRNG. "
         "Non-trivial = non-empty message; distinct = distinct class keys (configuration | workload / mode / direction / "
         "[partition kind] / whole-block count bucket (0,1,2-3,4-7,8-15,16-31,32-63,64-65,long) / tail size len mod 16 / IV kind / "
         "alias mode / placement hi|lo|mis; plus mis / mode / direction / block bucket / src offset)",
    jobs=[
        J("c03.oneshot", configs=_ASM, variant="asm", shards=(2, 16), floor=100000),
        J("c03.oneshot", configs=["purego"], variant="purego", shards=(2, 16), floor=100000),
        J("c03.stream", configs=_ASM, variant="asm", shards=(2, 8), floor=20000),
        J("c03.stream", configs=["purego"], variant="purego", shards=(2, 8), floor=20000),
        J("c03.setiv", configs=_ASM, variant="asm", shards=(1, 2), floor=100),
        J("c03.setiv", configs=["purego"], variant="purego", shards=(1, 2), floor=100),
        # refused calls (destination shorter than the source, partial blocks for block modes): nothing outside the two slices
        # may be touched whatever the call does (guard pages + canaries); the argument checks are all that keeps the
        # assembly from overrunning
        J("c03.short", configs=_ASM, variant="asm", shards=(1, 2), floor=5000),
        J("c03.short", configs=["purego"], variant="purego", shards=(1, 2), floor=5000),
        J("c03.short", configs=["ia32"], variant="ia32", shards=(1, 2), floor=5000),
        # 32-bit build of the generic code (GOARCH=386)
        J("c03.oneshot", configs=["ia32"], variant="ia32", shards=(2, 16), floor=100000),
        J("c03.stream", configs=["ia32"], variant="ia32", shards=(2, 8), floor=20000),
        J("c03.setiv", configs=["ia32"], variant="ia32", shards=(1, 2), floor=100),
        # thorough only: race build (implies checkptr) over the assembly-backed paths
        dict(J("c03.oneshot", configs=["avx2"], variant="race", shards=(1, 16)), thorough_only=True),
        dict(J("c03.stream", configs=["avx2"], variant="race", shards=(1, 8)), thorough_only=True),
    ],
    assumptions=[
        "reference modes in harness/ref/modes over harness/ref/sm4 (validated at every child start: AES instantiation against "
        "crypto/cipher and x/crypto/xts, IEEE 1619 / NIST ciphertext-stealing vectors, GB/T 17964-2021 examples for GB-XTS, BC, "
        "OFBNLF and HCTR, inverse law)",
        "HCTR: the definition taken is Wang-Feng-Wu / GB/T 17964-2021 chapter 11 (hash over N || T padded with zeros); the open "
        "finding hctr-tail-tweak is recognised only when the output equals the exact model of the defective hash block",
        "a read outside a slice but inside the same page on the side that does not abut a guard page is unobservable",
    ],
)

CLAIM = dict(
    text="Runtime monitoring of the SM4 modes of operation (crypto/cipher CBC/CFB/OFB/CTR and gmsm/cipher ECB, XTS, GB-XTS, BC, OFBNLF, "
         "HCTR): every length residue after 0..64 whole blocks (every 16/8/4/1-block loop phase and every ciphertext-stealing tail "
         "size), counters that carry across 32/64/128 bits inside and across keystream refills, in-place / disjoint / longer-dst "
         "calls, and call partitions on one mode object are executed from guard-page buffers on three library code paths (fused "
         "assembly, generic composition, batched composition) in seven dispatch configurations (AVX2, AVX, SSE, single-block AES-NI, "
         "AES-NI without PCLMULQDQ, table-driven Go with cpu.aes=off, purego) and compared byte for byte with independent textbook definitions; the library's "
         "decryption is applied to its own ciphertext; calls the modes refuse (short destination, partial blocks) are made from guard-page "
         "buffers as well and must not reach outside the two slices; faults, canary changes and child death are violations. Held on the cases "
         "executed; not a proof.",
    design_ref="DESIGN.md 6 (C03)",
    note="trusted: harness/ref/modes, harness/ref/sm4, Go runtime, kernel page protection; only dst[:len(src)] is specified "
         "(writes into dst beyond len(src) are recorded as observations); arm64/ppc64le assembly is not executed here",
    technique="differential reference monitor + cross-path comparison + history monitor + guard-page buffers across dispatch tiers",
)
