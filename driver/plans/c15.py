# plan and claim for C15 (X.509 create / parse / verify); J and both are injected by driver/plan.py
_CFG = ["avx2", "purego"]
_OB = both("c15.objects", _CFG, shards=(6, 14), floor=1000)
_CH = both("c15.chains", _CFG, shards=(8, 16), floor=4600)
_PO = both("c15.pools", _CFG, shards=(4, 8), floor=700)
_AP = both("c15.apis", _CFG, shards=(2, 4), floor=200)
_RE = both("c15.reissue", _CFG, shards=(1, 4), floor=700)
PLAN = dict(
    level="exploration",
    rule="c15.objects: one object (handled in 4 cases = parts, each re-creating it from the same template and keys; laws, truncations and "
         "trailing data in part 0, part p sweeps the DER offsets = p mod 4) = (certificate under a CA, self-signed certificate, PKCS#10 request, CFCA request, "
         "revocation list; kinds and signer key types SM2/P-256/P-384/Ed25519/RSA cycle with the case number, template, subject key "
         "and signature algorithm come from a PRNG of (seed, workload, object number)) with the field-equality and signature laws, an independent SM2-SM3 "
         "verification, issuer-key substitution, issuer gating and the complete sweep: 4 substitutions (^0x01, ^0x80, 0x00, 0xFF; "
         "identity mutants excluded) at every DER offset (a quarter of the offsets, selected by the object number, when the issuer key is P-384), every truncation and 2 trailing-data extensions; the law is by region: an alteration inside the tbs element or inside the content "
         "octets of signatureValue (unused-bits octet included) must make parsing or verification fail without exception, elsewhere (outer "
         "header, signatureAlgorithm, BIT STRING tag/length) parse+verify must imply unchanged TBS, signature and algorithm; in part 0 the object "
         "is re-issued (next serial / CRL number / subject, fresh randomness; at most 128 times) until the low 3 bits of the last signature octet "
         "are clear and the unused-bits octet additionally takes every value 1..7. c15.chains: one case = one "
         "generated PKI (a base chain of depth 0..3 changed by one of 23 recipes (cycle of 31: 8 slots mix 2-3 recipes), plus noise) built three times (SM2 keys, "
         "mixed key types, ECDSA twin through crypto/x509) and queried at 4+ explicit verification times x key-usage sets per target. "
         "Two recipes (parallel-versions, parallel-versions-eku) give one or two CAs of the chain one or two further certificates for the same name and key "
         "(re-issued, cross-signed by a further root, second self-signed root, trusted version of an intermediate) so that a target has 2..9 candidate chains, "
         "every version with a rule of its own (EKU list, path length, validity, names, explicit key identifier, name constraint); one topology in five of any recipe "
         "gets EKU lists on all certificates; requested usages then have 2-3 entries in several orders (7 sets) two times in three, so that the EKU nesting rule is "
         "decided per returned chain where candidates differ. Every query may set the other VerifyOptions fields: Intermediates nil, DNSName (matching / non-matching host "
         "names and IPs derived from the target's SANs: case, trailing period, wildcard of one label, suffix and prefix extensions, brackets, the common name), "
         "MaxConstraintComparisions at, below and above the largest number of comparisons any chain of the target can need (the bound is never a reason for the model "
         "to refuse a returned chain; a chain is demanded only when the bound cannot be reached; the verdict under a tight bound is compared with crypto/x509). The pools "
         "are built once per instance and reused by all queries three times in four; after every Verify the caller's KeyUsages must be unchanged and the returned slices are overwritten. "
         "Names under constraints include quoted-string mailboxes and URIs without a fully qualified host (IP literal, no authority). "
         "The recipe critical-extension puts on one certificate of the chain (any position) one thing a verifier cannot evaluate, marked critical: an unknown extension, one of 19 other "
         "identifiers (policy constraints, inhibitAnyPolicy, policy mappings, issuerAltName ..., identifiers next to the known ones), a subjectAltName of one unevaluated GeneralName form only, "
         "or nameConstraints with an unevaluated form in the permitted or (two times in three) excluded subtrees, written by hand through ExtraExtensions together with whatever evaluated constraints other recipes of a mix put on the same CA. "
         "Second part of c15.chains (after the generated topologies; alone it is registered as c15.extensions): one case = one entry of a systematic enumeration (1110 entries; quick: once, thorough: 6 PRNG rounds), built as a PKI of its own (depth, windows, usages, keys, order of hand-written "
         "entries from the case PRNG) in the three instances of c15.chains and judged in the same way: (A) nameConstraints with each of 6 unevaluated GeneralName forms (otherName, x400Address, directoryName, "
         "ediPartyName, registeredID, an undefined tag) x permitted / excluded / both sides x critical / not x CA = root / issuing CA / upper intermediate x company of evaluated constraints the target satisfies "
         "(none, same side, other side, DNS+IP on both sides); (B) 21 extension identifiers x critical / not x target / intermediate / root / target that is itself an anchor / one of two versions of a CA "
         "(the chain through the other version is demanded and must be the only one); (C) subjectAltName with each unevaluated form x critical / not x alone / with a dNSName x target / intermediate / root, half of them "
         "below a constrained CA; (D) the evaluated forms DNS / email / IPv4 / IPv6 / URI x permitted / excluded / both (excluded subtree inside the permitted one) x target names inside, in the excluded part, outside, "
         "two names of which one decides (either order), a name of another form (IPv6 address under IPv4 constraints and vice versa), none x root / issuing CA, written by hand or by CreateCertificate, critical or not; "
         "(E) 25 complete nameConstraints values that are malformed (empty value, empty subtrees, surplus or misordered elements, bytes after the value, IP constraints of 0/4/5/16/31 octets or with a mask with a hole, "
         "non-IA5 dNSName) or unusual x critical / not x 2 positions: refusal at parsing is an acceptable answer that must not depend on the key types, a malformed critical value must never be part of a returned chain, "
         "the rest is compared between the instances and with crypto/x509 only; (F) GeneralSubtree minimum/maximum fields (differentials only); (H) 12 dNSName / rfc822Name values that cannot be read as a domain name or mailbox (space, empty label, no @, empty part; "
         "debatable ones - trailing or leading period, empty - are compared only) on a target below permitted / excluded constraints of the form or constraints on another form only: below permitted subtrees of "
         "the form the chain must be refused; (I) key identifiers / authority information access marked critical (refusal must not depend on the key types); one extension case in three of (B) carries a further "
         "unknown non-critical extension before or after the enumerated one; IP names of the other family in (D) repeat the leading octets of an address inside the subtree; (G) verification time one second outside / at / inside the NotBefore or "
         "NotAfter of exactly one certificate, for every position of chains of depth 0..3, all other certificates valid. "
         "c15.pools: one case = one history of 4..8 CertPool objects over a generated PKI (same recipes; plus a same-subject CA with an unrelated key and a leaf of its own, "
         "0..9 filler CAs, one time in three a cluster of 4..6 same-subject CAs): a base pool filled one certificate at a time or by PEM bundles, clones of it and clones of "
         "clones extended separately through AddCert / AppendCertsFromPEM (1-3 blocks, blocks to skip in between, buffer overwritten afterwards) / AddCertWithConstraint "
         "(4 kinds of constraint), duplicate and empty additions, interleaved with Verify calls; at the end every pool serves as Roots for every target (Intermediates: "
         "the intended pool, the same pool, another pool or nil; roles exchanged). Each pool has a model (certificates added, constraint per entry) that is the ground truth "
         "of the Verify verdicts (link-by-link soundness, completeness) and of Subjects (multiset) and Equal (all pairs, nil). "
         "c15.apis: one case = one issuer (key kinds cycle) with 1-3 certificates: CheckSignatureWithDigest (digest computed without the library, Z_A from the reference SM3; "
         "altered digest bits within the part ECDSA uses, altered TBS, altered signature, wrong length, other key, SM3 without Z_A), the older CRL interface "
         "(CreateCRL -> ParseDERCRL / ParseCRL DER+PEM -> fields, CheckCRLSignature, also through ParseRevocationList; 40 alterations of signed portion and signature; other key), "
         "ParseCertificates / ParseCertificatePEM / ParseCertificateRequestPEM (round trip, truncated last element, wrong block types), MarshalCSRResponse -> ParseCSRResponse "
         "with 1-3 signing certificates, with and without enveloped encryption key and 1-2 encryption certificates (other signing key must be refused), subject keys given as "
         "crypto/ecdh P-256/P-384/P-521 and gmsm/ecdh SM2 keys, Verify on Certificate values without Raw. "
         "c15.reissue: one case = one template history or one precedence template (7 kinds x 10 signer slots over all five signer key types). Histories: create -> parse -> the parsed object "
         "(ToX509 form, or the smx509 value itself) becomes the next template with 1-3 of 15 changes a CA program makes (serial, dates, names, usages, basic constraints, policies, AIA/CRLDP, "
         "name constraints, key identifiers given/cleared, ExtraExtensions, Subject, output-only members overwritten; another parent key type, another subject key) -> create -> parse, two "
         "generations, for certificates under a CA, self-signed certificates, requests (Attributes kept or cleared) and revocation lists (one more / one fewer entry, changed reason in "
         "RevokedCertificateEntries, or the deprecated RevokedCertificates maintained instead; renewed issuer, another issuer key). Precedence: templates from scratch that set both sides "
         "differently: ExtraExtensions (encoded by crypto/x509 from differing member values) against each of 10 dedicated member groups, Extensions / Policies / Issuer / Version / Signature / "
         "Raw* / PublicKey filled with contradicting values, RevokedCertificateEntries against RevokedCertificates, the CRL's AuthorityKeyId / Issuer / Extensions against the issuer "
         "certificate, request Attributes against ExtraExtensions against name members, RawSubject against Subject (template, parent, request). Judged by the documented rule applied to the "
         "template (effective template -> the field comparison of c15.objects, plus the exact set of extension identifiers of certificate, list and list entries) and, also where the "
         "documentation is silent (RawSubject, Attributes that the deprecated type cannot represent), by giving the same template to crypto/x509 with P-256 twin keys: names, validity, serial, "
         "complete extension lists, entry encodings, create/parse verdicts must agree. "
         "Structured key material (SM2 and P-256 keys whose public X and/or Y has one or two leading zero bytes, or whose scalar has; fixed "
         "scalars re-validated at child start against the reference curve) is used by object number, not by chance: every second certificate "
         "subject key, every second SM2/P-256 signer (issuer, CSR, self-signed) key, the temporary key of 6 of every 7 SM2 CFCA requests (each class "
         ">= 3 times per quick run) and one key of every third topology. c15.sha1: the object workload restricted to SHA-1 signature algorithms, run with GODEBUG=x509sha1=1 only. "
         "distinct = class keys (configuration | object kind / signer / algorithm / subject key / CA / constraints, or recipe / depth / "
         "number of certificates / outcome pattern, or extension family / form or identifier or value / side / criticality / position / outcome, or pools / instance keys / recipe / number of pools / fillers, or apis / signer / algorithm / leaves, or reissue / kind / signer / shape or rule); no case is marked trivial",
    # the purego children take about twice as long as the others: they are started first
    jobs=[_CH[1], _OB[1], _CH[0], _OB[0], _PO[1], _PO[0], _AP[1], _AP[0], _RE[1], _RE[0],
          J("c15.sha1", configs=["sha1ok"], variant="asm", shards=(1, 2), floor=120)],
    assumptions=["crypto/x509, encoding/asn1, math/big of the toolchain are trusted (twin instance, independent parse of non-SM2 objects)",
                 "harness/ref/ec + harness/ref/sm3 (self-tested against GB/T 32918.5 / GB/T 32905 examples) are the independent SM2-SM3 verifier",
                 "the ground-truth model is RFC 5280 path validation restricted to the generated features; where Verify is documented to be "
                 "stricter than RFC 5280 (self-issued certificates count for path length / name constraints) soundness uses the RFC rule and "
                 "completeness the stricter one; rfc822Name/URI host constraints on which the two readings differ are executed but not judged",
                 "ParseRevocationList ignores bytes after the outer SEQUENCE (as crypto/x509 does): observed and counted, not judged",
                 "constraints of AddCertWithConstraint are documented for chains rooted in the entry: for entries of the pool given as Intermediates the model only uses "
                 "them when it demands a chain, never to refuse a returned one; the constraint rules do not depend on whether the entry itself is part of the argument",
                 "Verify giving up after its documented budget of 100 signature checks is recorded as inconclusive (possible where many same-subject CAs share a pool)",
                 "template histories: a template that crypto/x509 refuses although smx509 accepts it (nil serial number on this toolchain) is not compared with the twin; "
                 "request templates refused by both libraries, or whose product neither can parse (critical extensions inside the deprecated Attributes), are counted, not judged",
                 "a critical extension that the verifier does not evaluate must stop chain building (RFC 5280 4.2, documented for Certificate.UnhandledCriticalExtensions); the set of evaluated "
                 "extensions / GeneralName forms is the documented one (key usage, basic constraints, SAN with at least one dNSName / rfc822Name / iPAddress / URI, nameConstraints over those four forms, "
                 "CRL distribution points, key identifiers, EKU, certificate policies, AIA); policy constraints / inhibitAnyPolicy / policy mappings are not evaluated by smx509: the twin verdict of crypto/x509 "
                 "is not compared for them (later toolchains evaluate them)",
                 "GeneralSubtree minimum/maximum fields and unusual but parseable nameConstraints values are outside the model: executed, compared between key types and with crypto/x509, not judged",
                 "not driven: Roots nil (system pool / platform verifier), CurrentTime zero (wall clock), X25519 subject keys (refused by CreateCertificate as by crypto/x509)"],
)

CLAIM = dict(
    text="Runtime monitoring of smx509: every created certificate, request, CFCA request and revocation list (5 signer key types x "
         "documented signature algorithms x generated templates) is parsed back and compared field by field with its template, its signature "
         "is verified by the library, by crypto/x509 where no SM2 key is involved and by an independent SM2-SM3 verifier; every single-byte "
         "substitution (4 values), truncation and trailing-data extension of its DER is required to fail parsing or verification - unconditionally inside the signed portion and the signatureValue content (incl. the "
         "unused-bits octet, values 1..7), elsewhere unless TBS, signature and algorithm are unchanged; substituted and unauthorised issuer certificates are required to be refused. Every chain "
         "returned by Verify on generated PKIs is checked link by link against the generator's ground truth (signing edges, windows, CA/key "
         "usage, path length, name constraints, EKU nesting, critical extensions the verifier cannot evaluate (unknown identifiers, policy extensions, nameConstraints with an unevaluated GeneralName form on the permitted or the excluded side, "
         "subjectAltName without an evaluated form, malformed nameConstraints values; every position of the chain, enumerated systematically together with their non-critical twins which must not stop chain building), host name when DNSName is set, membership of the pools given as Roots and Intermediates), "
         "also where a target has several candidate chains with differing rules and several requested usages, Verify must succeed whenever the ground truth has "
         "a valid chain, verdict and chain set must be independent of the key types and equal to crypto/x509's on an ECDSA twin (including Intermediates nil, DNSName and "
         "MaxConstraintComparisions). CertPool objects with histories (clones extended separately, PEM bundles, constrained entries, duplicates, reuse over many Verify calls and in "
         "both roles) must behave as the list of certificates added to each of them: a chain never ends in a certificate that was not added to the very pool given as Roots. "
         "CheckSignatureWithDigest, the older CRL interface, the multi-certificate / PEM parsers and the GM/T 0092 response round-trip obey the same creation / alteration / key-substitution laws. "
         "The field law also holds for templates that come from parsed objects (two generations of re-issue with changes, every signer key type) and for templates that populate both sides of a "
         "documented precedence rule differently (ExtraExtensions, Extensions, key identifiers, RevokedCertificateEntries / RevokedCertificates, request Attributes, output-only members); where the "
         "documentation is silent the result equals crypto/x509's for the same template. "
         "Exploration: sampled templates and topologies, exhaustive only over the single-byte substitutions of each sampled object (a quarter of the offsets for P-384 issuers).",
    design_ref="DESIGN.md 6 (C15)",
    note="trusted: crypto/x509 + encoding/asn1 of the toolchain, harness/ref/ec, harness/ref/sm3, the PKI model in harness/wl/c15/chains.go; "
         "SHA-1 algorithms only in workload c15.sha1 (configuration sha1ok)",
    technique="field/signature laws + exhaustive single-byte alteration sweep + ground-truth PKI model + pool history models + metamorphic/stdlib differential",
)
