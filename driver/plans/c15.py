# plan and claim for C15 (X.509 create / parse / verify); J and both are injected by driver/plan.py
PLAN = dict(
    level="exploration",
    rule="c15.objects: one object (handled in 4 cases = parts, each re-creating it from the same template and keys; laws, truncations and "
         "trailing data in part 0, part p sweeps the DER offsets = p mod 4) = (certificate under a CA, self-signed certificate, PKCS#10 request, CFCA request, "
         "revocation list; kinds and signer key types SM2/P-256/P-384/Ed25519/RSA cycle with the case number, template, subject key "
         "and signature algorithm come from a PRNG of (seed, workload, object number)) with the field-equality and signature laws, an independent SM2-SM3 "
         "verification, issuer-key substitution, issuer gating and the complete sweep: 4 substitutions (^0x01, ^0x80, 0x00, 0xFF; "
         "identity mutants excluded) at every DER offset (a quarter of the offsets, selected by the object number, when the issuer key is P-384), every truncation and 2 trailing-data extensions; the law is by region: an alteration inside the tbs element or inside the content "
         "octets of signatureValue (unused-bits octet included) must make parsing or verification fail without exception, elsewhere (outer "
         "header, signatureAlgorithm, BIT STRING tag/length) parse+verify must imply unchanged TBS, signature and algorithm; in part 0 the object "
         "is re-issued (next serial / CRL number / subject, fresh randomness; at most 128 times) until the low 3 bits of the last signature octet "
         "are clear and the unused-bits octet additionally takes every value 1..7. c15.chains: one case = one "
         "generated PKI (a base chain of depth 0..3 changed by one of 21 recipes (cycle of 29: 8 slots mix 2-3 recipes), plus noise) built three times (SM2 keys, "
         "mixed key types, ECDSA twin through crypto/x509) and queried at 4+ explicit verification times x key-usage sets per target. "
         "Structured key material (SM2 and P-256 keys whose public X and/or Y has one or two leading zero bytes, or whose scalar has; fixed "
         "scalars re-validated at child start against the reference curve) is used by object number, not by chance: every second certificate "
         "subject key, every second SM2/P-256 signer (issuer, CSR, self-signed) key, the temporary key of 6 of every 7 SM2 CFCA requests (each class "
         ">= 3 times per quick run) and one key of every third topology. c15.sha1: the object workload restricted to SHA-1 signature algorithms, run with GODEBUG=x509sha1=1 only. "
         "distinct = class keys (configuration | object kind / signer / algorithm / subject key / CA / constraints, or recipe / depth / "
         "number of certificates / outcome pattern); no case is marked trivial",
    jobs=both("c15.objects", ["avx2", "purego"], shards=(6, 14), floor=1000)
         + both("c15.chains", ["avx2", "purego"], shards=(6, 14), floor=3500)
         + [J("c15.sha1", configs=["sha1ok"], variant="asm", shards=(1, 2), floor=120)],
    assumptions=["crypto/x509, encoding/asn1, math/big of the toolchain are trusted (twin instance, independent parse of non-SM2 objects)",
                 "harness/ref/ec + harness/ref/sm3 (self-tested against GB/T 32918.5 / GB/T 32905 examples) are the independent SM2-SM3 verifier",
                 "the ground-truth model is RFC 5280 path validation restricted to the generated features; where Verify is documented to be "
                 "stricter than RFC 5280 (self-issued certificates count for path length / name constraints) soundness uses the RFC rule and "
                 "completeness the stricter one; rfc822Name/URI host constraints on which the two readings differ are executed but not judged",
                 "ParseRevocationList ignores bytes after the outer SEQUENCE (as crypto/x509 does): observed and counted, not judged"],
)

CLAIM = dict(
    text="Runtime monitoring of smx509: every created certificate, request, CFCA request and revocation list (5 signer key types x "
         "documented signature algorithms x generated templates) is parsed back and compared field by field with its template, its signature "
         "is verified by the library, by crypto/x509 where no SM2 key is involved and by an independent SM2-SM3 verifier; every single-byte "
         "substitution (4 values), truncation and trailing-data extension of its DER is required to fail parsing or verification - unconditionally inside the signed portion and the signatureValue content (incl. the "
         "unused-bits octet, values 1..7), elsewhere unless TBS, signature and algorithm are unchanged; substituted and unauthorised issuer certificates are required to be refused. Every chain "
         "returned by Verify on generated PKIs is checked link by link against the generator's ground truth (signing edges, windows, CA/key "
         "usage, path length, name constraints, EKU nesting, unknown critical extensions), Verify must succeed whenever the ground truth has "
         "a valid chain, verdict and chain set must be independent of the key types and equal to crypto/x509's on an ECDSA twin. "
         "Exploration: sampled templates and topologies, exhaustive only over the single-byte substitutions of each sampled object (a quarter of the offsets for P-384 issuers).",
    design_ref="DESIGN.md 6 (C15)",
    note="trusted: crypto/x509 + encoding/asn1 of the toolchain, harness/ref/ec, harness/ref/sm3, the PKI model in harness/wl/c15/chains.go; "
         "SHA-1 algorithms only in workload c15.sha1 (configuration sha1ok)",
    technique="field/signature laws + exhaustive single-byte alteration sweep + ground-truth PKI model + metamorphic/stdlib differential",
)
