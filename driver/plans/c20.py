# plan and claim for C20 (concurrency). Every job is a separate process, so every job also races the process-wide
# singletons once (its first case). GOMAXPROCS is a workload dimension.
# The per-case deadline is raised to 120 s: the workload decides itself whether a goroutine of the concurrent phase
# never returns (bounded progress: 8 s suspicion, then the whole sequential replay, a re-run of the stuck call alone and
# a further 6 s without any movement of the goroutine's call counter) and needs up to ~25 s for that verdict.
def _jobs():
    out = []
    for procs in (2, 4, 16):
        out.append(J("c20.rounds", configs=["avx2"], variant="race", shards=(3, 12), floor=10, procs=procs, deadline="120s"))
        out.append(J("c20.rounds", configs=["noaes"], variant="race", shards=(2, 6), floor=10, procs=procs, deadline="120s"))
    # AES-NI without PCLMULQDQ: the table-driven GCM over assembly batches is a separate AEAD type
    out.append(J("c20.rounds", configs=["noclmul"], variant="race", shards=(3, 8), floor=10, procs=8, deadline="120s"))
    out.append(J("c20.rounds", configs=["purego"], variant="race-purego", shards=(2, 8), floor=10, procs=8, deadline="120s"))
    return out


PLAN = dict(
    level="exploration",
    rule="every child process first races the process-wide singletons (36 goroutines, two per each of 18 first-use "
         "operations - key generation, signing, encryption, key exchange, certificate creation and verification, a technically constrained PKI created and its permitted and violating "
         "leaves verified with every VerifyOptions shape, AEADs, on "
         "sm2p256v1, on a NIST curve and on SM9 - as their very first library calls), then runs rounds: cold shared objects "
         "(SM2 private/public key, SM2-scheme keys on NIST P-256 [P-521 in the purego build] and P-384 incl. a shared "
         "*ecdsa.PrivateKey, ECDH key, SM9 sign/encrypt master and user keys in BOTH representations the API hands out - decoded "
         "from bytes (every object owns its copy of the master public key) and fresh from Generate*MasterKey / GenerateUserKey, "
         "never serialised (master, PublicKey() and user key share one internal master public key with its caches); each SM9 "
         "call takes the representation its seed selects -, 8 G1 and 8 G2 group elements still in projective form (through the "
         "verif hook; 2 in purego), SM4 block + shared GCM "
         "(12- and 16-byte nonces) and CCM AEADs, certificate pools filled lazily from PEM and from parsed certificates with "
         "a constraint callback; the round PKI has two same-subject roots with intermediates and a third, technically "
         "constrained branch whose names carry a label drawn per PKI (so state keyed by names is fresh in every round): root "
         "and intermediate with DNS, e-mail (host and exact mailbox), URI and IP name constraints, permitted and excluded, with "
         "and without leading period, critical; EKU-restricted intermediate; path length limits; the intermediate cross-signed "
         "by the first root (two candidate chains); seven leaves with SANs of every kind, one permitted and one violating "
         "leaf per constraint kind and for the EKU set), 4/8/16 goroutines released from a barrier, each executing a seeded list of 3-8 of 117 "
         "operations with scripted randomness, then the same lists sequentially on a second cold object set; results must "
         "be identical, round-trip laws of composite operations must hold, every goroutine must finish (bounded progress), "
         "and the race detector must be silent. Operations: first and steady use of the shared objects (sign, verify, "
         "encrypt, decrypt, wrap/unwrap, envelopes, seal/open, chain verification - plain and name-constrained leaves against the shared pools, their clones and the "
         "parsed pool, with VerifyOptions of eleven shapes (DNSName exact / wildcard / mixed case / IP / no match, KeyUsages "
         "sets, CurrentTime before, in and after validity, MaxConstraintComparisions), accepted chains and refusals both being "
         "results -); DERIVATIONS from a shared parent "
         "followed by use of the derived object (GenerateUserKey of both SM9 master kinds, PublicKey()/Public()/"
         "MasterPublic() accessors, ECDH()/PublicKeyToECDH conversions, key objects constructed from the parent's fields or "
         "encodings, CertPool.Clone and Clone+AddCert, every mode/AEAD/MAC constructor over the shared block); key "
         "agreement run to the end (SM2 exchange in both roles on sm2p256v1 and on the legacy-curve path, SM2-MQV on ECDH "
         "keys, SM9 exchange between the shared user key and keys derived during the round); objects only one goroutine "
         "knows (one such call in every list, several new objects per call). Round kinds: same first operation on half of "
         "the goroutines / pool-heavy / family rounds (first call of every goroutine works on ONE parent object: sm2, "
         "legacy curve, ecdh, sm9 sign master, sm9 encrypt master, block, pool, own objects, shared projective points). After a "
         "round the VALUE of every shared object (scalars, coordinates, encodings, marshalled points, pool subjects) must equal "
         "its value after the sequential replay. Then 3 (purego 2) first-use BURST cases per process: many cheap trials of one "
         "object kind (projective points; sm2 key from NewPrivateKey/GenerateKey/FromECPrivateKey/parsed SEC 1; ecdh key from "
         "NewPrivateKey/GenerateKey/sm2 ECDH(); sm9 sign and encrypt master generated or decoded with user key derived or "
         "decoded; sm4 block; pool from PEM or parsed, plain or with a constrained root and intermediate of its own) - a new cold object per trial, 2-4 goroutines released by a spinning "
         "barrier making its first calls at the same instant, the same calls sequentially on a twin, results and object value "
         "compared. "
         "Distinct = class keys (configuration | round kind and goroutines / simultaneous first calls observed / completion "
         "order of the first four finishers / GOMAXPROCS, plus the first-use operations that were contended)",
    jobs=_jobs(),
    assumptions=["Go race detector (happens-before; bounded shadow history, hence many short rounds)",
                 "schedules are those the Go scheduler produced under GOMAXPROCS 2/4/16 - not enumerated",
                 "a goroutine is reported as hung only if its call counter did not move for >= 14 s of wall time during which "
                 "the coordinator completed the sequential replay of the whole round and a solitary re-run of the stuck call",
                 "purego build: the standard library's P-256 has no order inversion (crypto/elliptic panics), so NIST P-521 "
                 "takes the place of P-256 for the legacy-curve keys there"],
)

CLAIM = dict(
    text="Runtime monitoring under the Go race detector: cold shared key objects (SM2 on sm2p256v1 and, through the library's "
         "math/big path, on NIST curves; ECDH; SM9 master and user keys), ciphers, AEADs and certificate pools (incl. chains with name constraints of every kind, EKU-restricted and "
         "cross-signed CAs, leaves with SANs of every kind, eleven VerifyOptions shapes) are used for the "
         "first time concurrently (so every sync.Once / lazy cache is raced at initialisation), in fresh processes for the "
         "process-wide singletons; objects derived from a shared parent while the parent is first used (user keys, public keys "
         "from accessors, ECDH conversions, re-constructed keys, pool clones, modes/AEADs/MACs over the shared block) are then "
         "used; key agreement is run to the end; every concurrent result is compared with a sequential replay of the same "
         "deterministic call list, and the value of every shared object afterwards with its value after the replay; shared SM9 keys "
         "are present decoded and fresh from generation/derivation, group elements also in projective form (through the verif "
         "hook: the public key objects never hold one, their constructors normalise the point), and first-use bursts give "
         "one-shot transitions (sync.Once, normalisation, lazy parsing, cached inverse) thousands of simultaneous first calls "
         "per run; every goroutine must return (bounded progress, confirmed by the sequential replay and a "
         "solitary re-run before it is reported), panics in goroutines are caught. The evidence reports how many rounds really "
         "had overlapping first-use calls, the round kinds and how many distinct completion orders were seen.",
    design_ref="DESIGN.md 6 (C20)",
    note="trusted: race detector, Go runtime; only interleavings the scheduler produced are observed",
    technique="race detector + concurrent-vs-sequential equality of results and object values + bounded progress on cold shared and derived objects in every representation",
)

# Coordinator's note: the operations on PROJECTIVE bn256 group elements reached through the verif hook (ops_points.go, the
# first burst kind) are not executed by the registered commands (development switch VERIF_C20_INTERNAL_POINTS=1): no public
# constructor hands out a projective point, so they test an internal contract, not property C20.
_NOTE = (" [The operations on projective group elements through the verif hook mentioned above are development-only and are "
         "NOT executed by the registered commands: no public constructor hands out a projective point, so they would test an "
         "internal contract rather than this property.]")
PLAN["rule"] += _NOTE
CLAIM["text"] += _NOTE
