# plan and claim for C20 (concurrency). Every job is a separate process, so every job also races the process-wide
# singletons once (its first case). GOMAXPROCS is a workload dimension.
# The per-case deadline is raised to 120 s: the workload decides itself whether a goroutine of the concurrent phase
# never returns (bounded progress: 8 s suspicion, then the whole sequential replay, a re-run of the stuck call alone and
# a further 6 s without any movement of the goroutine's call counter) and needs up to ~25 s for that verdict.
def _jobs():
    out = []
    for procs in (2, 4, 16):
        out.append(J("c20.rounds", configs=["avx2"], variant="race", shards=(3, 12), floor=10, procs=procs, deadline="120s"))
        out.append(J("c20.rounds", configs=["noaes"], variant="race", shards=(2, 6), floor=10, procs=procs, deadline="120s"))
    # AES-NI without PCLMULQDQ: the table-driven GCM over assembly batches is a separate AEAD type
    out.append(J("c20.rounds", configs=["noclmul"], variant="race", shards=(3, 8), floor=10, procs=8, deadline="120s"))
    out.append(J("c20.rounds", configs=["purego"], variant="race-purego", shards=(2, 8), floor=10, procs=8, deadline="120s"))
    # first-use bursts WITHOUT the race detector (result comparison only): a trial costs a tenth and the goroutines leave the
    # barrier within nanoseconds of each other - for one-shot transitions with windows far below a microsecond, which the
    # detector cannot see anyway when the writer is assembly and the flag atomic. c20.rounds has no job in these variants,
    # so the driver adds no mixed-order jobs (c20.rounds must make the first library calls of its process).
    out.append(J("c20.bursts", configs=["avx2"], variant="asm", shards=(2, 4), floor=5, deadline="120s"))
    out.append(J("c20.bursts", configs=["noaes", "noclmul"], variant="asm", shards=(1, 4), floor=5, deadline="120s"))
    return out


PLAN = dict(
    level="exploration",
    rule="every child process first races the process-wide singletons (36 goroutines, two per each of 18 first-use "
         "operations - key generation, signing, encryption, key exchange, certificate creation and verification, a technically constrained PKI created and its permitted and violating "
         "leaves verified with every VerifyOptions shape, AEADs, on "
         "sm2p256v1, on a NIST curve and on SM9 - as their very first library calls), then runs rounds: cold shared objects "
         "(SM2 private/public key, SM2-scheme keys on NIST P-256 [P-521 in the purego build] and P-384 incl. a shared "
         "*ecdsa.PrivateKey, ECDH key, SM9 sign/encrypt master and user keys in BOTH representations the API hands out - decoded "
         "from bytes (every object owns its copy of the master public key) and fresh from Generate*MasterKey / GenerateUserKey, "
         "never serialised (master, PublicKey() and user key share one internal master public key with its caches); each SM9 "
         "call takes the representation its seed selects -, 8 G1 and 8 G2 group elements still in projective form (through the "
         "verif hook; 2 in purego), SM4 block + shared GCM "
         "(12- and 16-byte nonces) and CCM AEADs, certificate pools filled lazily from PEM and from parsed certificates with "
         "a constraint callback; the round PKI has two same-subject roots with intermediates and a third, technically "
         "constrained branch whose names carry a label drawn per PKI (so state keyed by names is fresh in every round): root "
         "and intermediate with DNS, e-mail (host and exact mailbox), URI and IP name constraints, permitted and excluded, with "
         "and without leading period, critical; EKU-restricted intermediate; path length limits; the intermediate cross-signed "
         "by the first root (two candidate chains); seven leaves with SANs of every kind, one permitted and one violating "
         "leaf per constraint kind and for the EKU set; a leaf of an unknown issuer and a leaf that names a shared intermediate as issuer but is "
         "signed by another key), 4/8/16 goroutines released from a barrier, each executing a seeded list of 3-8 of 143 "
         "operations with scripted randomness, and the same lists sequentially on a second cold object set (the twins) - AFTER the "
         "concurrent phase in three rounds of four, BEFORE it in the fourth, so that what refused and valid calls leave behind in the "
         "package or the process is part of the history of the replay in the one case and of the goroutines in the other; results must "
         "be identical, round-trip laws of composite operations must hold, inputs that the schemes refuse whatever the state must be "
         "refused in the replay, every goroutine must finish (bounded progress), "
         "and the race detector must be silent; a call whose concurrent and sequential results differ is made a third time, alone, on a "
         "third cold object set, and the report says which side it agrees with. REFUSED CALLS (25 operations, most of them ending with the "
         "valid call on the same object): in five rounds of six a drawn share (1/8 - 3/4) of the calls of every goroutine - at least one, "
         "possibly its first on the cold object - is one the library refuses, interleaved with the valid calls on the same shared objects, and "
         "0-6 refused operations are made on the main goroutine before the barrier opens (on the twins: the shared objects stay cold): "
         "SM2 decryption with C1 / C2 / C3 altered, the C1 or the C3||C2 of another message, truncated, unknown format octet, the other "
         "splicing order, a ciphertext for another key, ASN.1 ciphertexts altered field by field or with damaged DER, messages of 1-6000 "
         "bytes, on sm2p256v1 and on the legacy-curve path, altered key envelopes; SM2 verification with r or s altered / exchanged / 0 / n / "
         "r+n, another hash, key, uid, damaged DER, (r,s) entry points; SM2 key exchange with an ephemeral key off the curve or a wrong "
         "confirmation value for either side (then repeated with the right value and run to the end), shared key in both roles, also on "
         "the legacy curve; ECDH peer encodings that are refused (off the curve, compressed, hybrid, infinity, short, x = p), refused "
         "scalars, PublicKeyToECDH of a point off the curve, SM2ZA with an identifier of 8192 bytes; SM9 verification with h or S altered, "
         "S another group element, other uid / hid / hash, damaged DER; SM9 decryption with C1 / C3 / C2 altered, truncated, another uid, "
         "read as another encryption type (raw and ASN.1); SM9 key unwrapping of damaged / off-curve encapsulations (refused) and of "
         "another group element or with another uid (another key: outcome compared); SM9 key exchange with a damaged ephemeral key or a "
         "wrong confirmation value; Open with the tag, the ciphertext, the additional data or the nonce altered, one octet missing, "
         "shorter than a tag - shared GCM (12- and 16-byte nonces) and CCM, messages and additional data below and above 128 bytes, and "
         "AEADs made for the call by every GCM / CCM constructor - in every dispatch tier of the plan; constructors over the shared block "
         "with refused sizes; CBC / ECB decryption over the shared block of altered ciphertexts + unpadding (three paddings; acceptance "
         "and refusal both being outcomes); chain verification of certificates that do not chain against the shared pools, clones and the "
         "parsed pool; the same on objects only the caller knows. A refusal compares as a refusal (class of the outcome and bytes returned "
         "beside the error, never the error text; for chain verification the error type and reason code). Operations: first and steady use of the shared objects (sign, verify, "
         "encrypt, decrypt, wrap/unwrap, envelopes, seal/open, chain verification - plain and name-constrained leaves against the shared pools, their clones and the "
         "parsed pool, with VerifyOptions of eleven shapes (DNSName exact / wildcard / mixed case / IP / no match, KeyUsages "
         "sets, CurrentTime before, in and after validity, MaxConstraintComparisions), accepted chains and refusals both being "
         "results -); DERIVATIONS from a shared parent "
         "followed by use of the derived object (GenerateUserKey of both SM9 master kinds, PublicKey()/Public()/"
         "MasterPublic() accessors, ECDH()/PublicKeyToECDH conversions, key objects constructed from the parent's fields or "
         "encodings, CertPool.Clone and Clone+AddCert, every mode/AEAD/MAC constructor over the shared block); key "
         "agreement run to the end (SM2 exchange in both roles on sm2p256v1 and on the legacy-curve path, SM2-MQV on ECDH "
         "keys, SM9 exchange between the shared user key and keys derived during the round); objects only one goroutine "
         "knows (one such call in every list, several new objects per call). Round kinds: same first operation on half of "
         "the goroutines / pool-heavy / family rounds (first call of every goroutine works on ONE parent object: sm2, "
         "legacy curve, ecdh, sm9 sign master, sm9 encrypt master, block, pool, own objects, shared projective points). After a "
         "round the VALUE of every shared object (scalars, coordinates, encodings, marshalled points, pool subjects) must equal "
         "its value after the sequential replay. Then 3 (purego 2) first-use BURST cases per process: many cheap trials of one "
         "object kind (projective points; sm2 key from NewPrivateKey/GenerateKey/FromECPrivateKey/parsed SEC 1: first signatures, or "
         "first decryptions of valid, altered and foreign ciphertexts of up to 4000 bytes next to encryptions; ecdh key from "
         "NewPrivateKey/GenerateKey/sm2 ECDH(); sm9 sign and encrypt master generated or decoded with user key derived or "
         "decoded, the first unwrapping possibly a refused one; sm4 block; FIRST MODE CONSTRUCTION over a new sm4 block - always the first burst "
         "of a process, 100 trials (50 with the software SM4): every goroutine calls the same constructor with the same parameters at the same instant (two trials of "
         "three; neighbours differ in the third): NewGCM, NewGCMWithNonceSize, NewGCMWithTagSize, NewCCM and its three variants, CBC, CTR, "
         "ECB, CFB, OFB, BC, HCTR, XTS and GB-XTS (through a block-making function that hands out the shared block), the four MACs, followed by "
         "Seal / refused Open / Open or Crypt of 128-320 bytes -; pool from PEM or parsed, plain or with a constrained root and intermediate of its own, one "
         "first verification in four being of a certificate that does not chain) - a new cold object per trial, 2-4 goroutines that live as long as the case (a fresh goroutine grows its stack inside its first "
         "library call, which spreads the calls out), each drawing its parameters and data BEFORE the barrier, leaving a bare-spin "
         "barrier within tens of nanoseconds of the others, then spinning for a drawn number of turns (offsets between the first calls "
         "from nothing to a few microseconds) and making its call; the same calls sequentially on a twin - before the concurrent calls in "
         "every other trial, after them in the others -, results and object value compared. Workload c20.bursts runs these bursts alone, "
         "every kind in every process and the mode-construction kind three times, in builds WITHOUT the race detector (asm: avx2 in two "
         "processes, noaes, noclmul): there a trial costs a tenth, and the goroutines of the mode-construction kind (3 or 4, 3 x 300 trials "
         "per avx2 process, 3 x 150 elsewhere) are never parked - they poll for the next trial, because waking a parked goroutine goes through "
         "the operating system and takes up to milliseconds on a busy machine, after which the goroutines do not leave the barrier together - "
         "so that the calls really start within nanoseconds, which is what windows far below a microsecond need (the detector is blind to "
         "them anyway when the writer is assembly and the flag atomic); the oracle there is the comparison with the twin alone. "
         "Distinct = class keys (configuration | round kind and goroutines / simultaneous first calls observed / completion "
         "order of the first four finishers / GOMAXPROCS, plus the first-use operations that were contended)",
    jobs=_jobs(),
    assumptions=["Go race detector (happens-before; bounded shadow history, hence many short rounds)",
                 "schedules are those the Go scheduler produced under GOMAXPROCS 2/4/16 - not enumerated",
                 "a goroutine is reported as hung only if its call counter did not move for >= 14 s of wall time during which "
                 "the coordinator completed the sequential replay of the whole round and a solitary re-run of the stuck call",
                 "c20.bursts (builds without the race detector) decides by result and object-value comparison only",
                 "purego build: the standard library's P-256 has no order inversion (crypto/elliptic panics), so NIST P-521 "
                 "takes the place of P-256 for the legacy-curve keys there"],
)

CLAIM = dict(
    text="Runtime monitoring under the Go race detector: cold shared key objects (SM2 on sm2p256v1 and, through the library's "
         "math/big path, on NIST curves; ECDH; SM9 master and user keys), ciphers, AEADs and certificate pools (incl. chains with name constraints of every kind, EKU-restricted and "
         "cross-signed CAs, leaves with SANs of every kind, eleven VerifyOptions shapes) are used for the "
         "first time concurrently (so every sync.Once / lazy cache is raced at initialisation), in fresh processes for the "
         "process-wide singletons; objects derived from a shared parent while the parent is first used (user keys, public keys "
         "from accessors, ECDH conversions, re-constructed keys, pool clones, modes/AEADs/MACs over the shared block) are then "
         "used; key agreement is run to the end; every concurrent result is compared with a sequential replay of the same "
         "deterministic call list (run after the concurrent phase or, in one round of four, before it; a differing call is made a third "
         "time alone to say which side is wrong), and the value of every shared object afterwards with its value after the replay; calls "
         "that the library REFUSES (altered / foreign / misread ciphertexts, signatures, confirmation values, peer keys, key encapsulations, "
         "AEAD messages, padded messages, certificates that do not chain) are part of every goroutine's list in five rounds of six and are "
         "made on the main goroutine before the barrier, a refusal comparing as a refusal; shared SM9 keys "
         "are present decoded and fresh from generation/derivation, group elements also in projective form (through the verif "
         "hook: the public key objects never hold one, their constructors normalise the point), and first-use bursts give "
         "one-shot transitions (sync.Once, normalisation, lazy parsing, cached inverse, whatever a first mode construction caches in a "
         "block) thousands of simultaneous first calls per run - also in builds without the detector (workload c20.bursts), where the calls "
         "start within nanoseconds of each other and only the comparison with a twin used sequentially decides; every goroutine must return (bounded progress, confirmed by the sequential replay and a "
         "solitary re-run before it is reported), panics in goroutines are caught. The evidence reports how many rounds really "
         "had overlapping first-use calls, the round kinds and how many distinct completion orders were seen.",
    design_ref="DESIGN.md 6 (C20)",
    note="trusted: race detector, Go runtime; only interleavings the scheduler produced are observed",
    technique="race detector + concurrent-vs-sequential equality of results and object values + bounded progress on cold shared and derived objects in every representation",
)

# Coordinator's note: the operations on PROJECTIVE bn256 group elements reached through the verif hook (ops_points.go, the
# first burst kind) are not executed by the registered commands (development switch VERIF_C20_INTERNAL_POINTS=1): no public
# constructor hands out a projective point, so they test an internal contract, not property C20.
_NOTE = (" [The operations on projective group elements through the verif hook mentioned above are development-only and are "
         "NOT executed by the registered commands: no public constructor hands out a projective point, so they would test an "
         "internal contract rather than this property.]")
PLAN["rule"] += _NOTE
CLAIM["text"] += _NOTE
