# plan and claim for C20 (concurrency). Every job is a separate process, so every job also races the process-wide
# singletons once (its first case). GOMAXPROCS is a workload dimension.
def _jobs():
    out = []
    for procs in (2, 4, 16):
        out.append(J("c20.rounds", configs=["avx2"], variant="race", shards=(3, 12), floor=10, procs=procs))
        out.append(J("c20.rounds", configs=["noaes"], variant="race", shards=(2, 6), floor=10, procs=procs))
    # AES-NI without PCLMULQDQ: the table-driven GCM over assembly batches is a separate AEAD type
    out.append(J("c20.rounds", configs=["noclmul"], variant="race", shards=(3, 8), floor=10, procs=8))
    out.append(J("c20.rounds", configs=["purego"], variant="race-purego", shards=(2, 8), floor=10, procs=8))
    return out


PLAN = dict(
    level="exploration",
    rule="every child process first races the process-wide singletons (20 goroutines, two per each of "
         "10 first-use operations, as their very first library call), then runs rounds: cold shared objects (SM2 private/public key, ECDH key, SM9 sign/encrypt "
         "master and user keys unmarshalled from bytes, SM4 block + shared GCM AEAD, certificate pools filled from PEM), 4/8/16 "
         "goroutines released from a barrier, each executing a seeded list of 3-8 of 40 operations (on the shared objects and on objects only that goroutine knows, so that scratch space shared between objects is exposed) with scripted randomness, then "
         "the same lists sequentially on a second cold object set; results must be identical and the race detector silent. "
         "Distinct = class keys (configuration | goroutines / simultaneous first calls observed / completion order of the first "
         "four finishers / GOMAXPROCS, plus the first-use operations that were contended)",
    jobs=_jobs(),
    assumptions=["Go race detector (happens-before; bounded shadow history, hence many short rounds)",
                 "schedules are those the Go scheduler produced under GOMAXPROCS 2/4/16 - not enumerated"],
)

CLAIM = dict(
    text="Runtime monitoring under the Go race detector: cold shared key objects, ciphers, AEADs and certificate pools are used for the "
         "first time concurrently (so every sync.Once / lazy cache is raced at initialisation), in fresh processes for the "
         "process-wide singletons; every concurrent result is compared with a sequential replay of the same deterministic call "
         "list; panics in goroutines are caught. The evidence reports how many rounds really had overlapping first-use calls and "
         "how many distinct completion orders were seen.",
    design_ref="DESIGN.md 6 (C20)",
    note="trusted: race detector, Go runtime; only interleavings the scheduler produced are observed",
    technique="race detector + concurrent-vs-sequential result equality on cold shared objects",
)
