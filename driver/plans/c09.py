# plan and claim for C09 (SM9 pairing groups through the verif-tagged re-export of internal/sm9/bn256)
_CFG = ["avx2", "noadx", "avx", "noadx-avx", "purego", "ia32"]   # ADX+BMI2 / plain MULQ field arithmetic, AVX2 / SSE table select, generic Go
PLAN = dict(
    level="exploration",
    rule="g1/g2: every window value 1..15 at every one of the 64 window positions of the fixed-base tables, structured scalars "
         "(0,1,2,n-2..n+2,p-1..p+1,2^256-1,2^k,2^k+-1, all-ones limbs, limb carries, one nibble value in every window) and seeded "
         "random scalars (uniform below n, uniform 256-bit, bit runs, sparse nibbles, near n) through ScalarBaseMult and ScalarMult on "
         "points in four representations (decoded affine, sum, decompressed, double negation), the addition grid [a]G+[b]G for "
         "a in 0..12, b in -12..12 (all exceptional cases), a battery of Add/Neg/Double/Set/aliasing/chain checks on random points, "
         "scalar lengths 0..66 - every result compared through Marshal() with affine big-integer arithmetic; gt: the same scalar "
         "families through ScalarBaseMultGT/ScalarMultGT/GT.ScalarMult/GT.ScalarBaseMult against exponentiation in Fp[w]/(w^12+2), "
         "GT.Add on arbitrary and corner-valued Fp12 operands against the polynomial product, exponent laws; pairing: GM/T 0044.5 "
         "published values (annex A e(P1,Ppub-s), annex B e(RA,deB) and e(Ppub-e,P2)^rB), e([a]P1,[b]P2) against g0^(ab) where g0 "
         "is derived from the published value, additivity in both arguments, inverses, infinity, Miller+Finalize = Pair, Finalize "
         "against f^((p^12-1)/n); decode: for seeded points the valid encodings, every coordinate replaced by c+p (when it fits 256 "
         "bits), p, 2^256-1, off-curve neighbours, wrong compression bytes, x without a square root, special all-zero/all-p/mixed "
         "strings, twist points with y.a0=0, short and long inputs, random strings - accept => strict reference accepts AND "
         "re-encoding returns the input AND the decoded value behaves as the reference point. A case is non-trivial unless marked; "
         "distinct = distinct class keys (configuration | workload / family / window position and value / scalar family / "
         "representation / candidate kind)",
    jobs=both("c09.g1", _CFG, shards=(2, 8), floor=1000) + both("c09.g2", _CFG, shards=(2, 8), floor=1000)
    + both("c09.gt", _CFG, shards=(2, 8), floor=1000) + both("c09.pairing", _CFG, shards=(4, 16), floor=200)
    + both("c09.decode", _CFG, shards=(2, 8), floor=200)
    # the plugin-tag build: gfp_plugin_amd64.s with the generic gfp2/g1 helpers
    + plugin("c09.g1", shards=(1, 4), floor=1000) + plugin("c09.g2", shards=(1, 4), floor=1000)
    + plugin("c09.gt", shards=(1, 4), floor=1000) + plugin("c09.pairing", shards=(2, 8), floor=200)
    + plugin("c09.decode", shards=(1, 4), floor=200),
    assumptions=[
        "reference model harness/ref/bn (Fp, Fp2, Fp12 = Fp[w]/(w^12+2), affine G1/G2, encodings), validated at every child start: "
        "BN polynomials, [n]P1 = [n]P2 = O, twist order n(2p-n), GM/T 0044.5 annex A/B/C key, signature and ciphertext points, the "
        "three published pairing values have order n and satisfy A^(keB*rB) = B2^ks and B1^rB = B2^rA in the model",
        "the pairing has no independent implementation: e(P1,P2) is pinned as the unique ks-th root of order n of the published "
        "e(P1,[ks]P2), every other pairing value follows by bilinearity on multiples of the generators",
        "compressed infinity is outside the documented domain (MarshalCompressed documents undefined behaviour for infinity): "
        "02||0.. / 03||0.. taken as the point at infinity by UnmarshalCompressed is recorded as an observation "
        "(event obs_compressed_zero_x_infinity_accepted), not judged; the uncompressed all-zero string is the library's documented "
        "encoding of infinity and must round-trip",
        "points of the twist outside the order-n subgroup: the property does not demand a subgroup check, either verdict of the G2 "
        "decoders is allowed (events decode.unspecified-*), but an accepted one must re-encode identically",
        "ScalarMult/ScalarMultGT with scalar lengths other than 32 bytes: refusal or the correct multiple are both accepted",
    ],
)

CLAIM = dict(
    text="Runtime monitoring of the SM9 groups: G1 and G2 scalar multiplication (fixed and variable base, every window value at every "
         "window position, structured and random scalars including n, n+1, 2^256-1), addition with all exceptional cases, negation, "
         "doubling and all encodings are compared with exact affine big-integer arithmetic; GT multiplication and the four "
         "exponentiation entry points with exact arithmetic in Fp[w]/(w^12+2); the pairing with the GM/T 0044.5 published values, with "
         "g0^(ab) for e([a]P1,[b]P2), with its laws and with f^((p^12-1)/n) for the final exponentiation; the five decoders with a "
         "strict reference accept set (canonical coordinates, on curve, re-encoding identical). ADX, non-ADX, AVX2/SSE select, "
         "plugin-tag assembly (with and without ADX) and purego back ends. Held on the cases executed; not a proof.",
    design_ref="DESIGN.md 6 (C09)",
    note="trusted: harness/ref/bn, math/big, the published GM/T 0044.5 values; no independent Miller loop; subgroup membership of "
         "decoded G2 points is not demanded; arm64/ppc64le assembly is not executed here",
    technique="differential reference monitor (groups, GT) + algebraic laws and published values (pairing) + accept-set monitor (decoders)",
)
