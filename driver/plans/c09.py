# plan and claim for C09 (SM9 pairing groups through the verif-tagged re-export of internal/sm9/bn256)
_CFG = ["avx2", "noadx", "avx", "noadx-avx", "purego", "ia32"]   # ADX+BMI2 / plain MULQ field arithmetic, AVX2 / SSE table select, generic Go
PLAN = dict(
    level="exploration",
    rule="g1/g2: every window value 1..15 at every one of the 64 window positions of the fixed-base tables, structured scalars "
         "(0,1,2,n-2..n+2,p-1..p+1,2^256-1,2^k,2^k+-1, all-ones limbs, limb carries, one nibble value in every window) and seeded "
         "random scalars (uniform below n, uniform 256-bit, bit runs, sparse nibbles, near n) through ScalarBaseMult and ScalarMult on "
         "points in four representations (decoded affine, sum, decompressed, double negation), the addition grid [a]G+[b]G for "
         "a in 0..12, b in -12..12 (all exceptional cases), a battery of Add/Neg/Double/Set/aliasing/chain checks on random points, "
         "scalar lengths 0..66 - every result compared through Marshal() with affine big-integer arithmetic; gt: the same scalar "
         "families through ScalarBaseMultGT/ScalarMultGT/GT.ScalarMult/GT.ScalarBaseMult against exponentiation in Fp[w]/(w^12+2), "
         "GT.Add on arbitrary and corner-valued Fp12 operands against the polynomial product, exponent laws; pairing: GM/T 0044.5 "
         "published values (annex A e(P1,Ppub-s), annex B e(RA,deB) and e(Ppub-e,P2)^rB), e([a]P1,[b]P2) against g0^(ab) where g0 "
         "is derived from the published value, additivity in both arguments, inverses, infinity, Miller+Finalize = Pair, Finalize "
         "against f^((p^12-1)/n); decode: for seeded points the valid encodings, every coordinate replaced by c+p (when it fits 256 "
         "bits), p, 2^256-1, off-curve neighbours, wrong compression bytes, x without a square root, special all-zero/all-p/mixed "
         "strings, twist points with y.a0=0, short and long inputs, random strings - accept => strict reference accepts AND "
         "re-encoding returns the input AND the decoded value behaves as the reference point; first: which operation is the FIRST "
         "to touch a freshly computed element - every producer of a G1/G2 element (ScalarBaseMult, ScalarMult of a decoded / a fresh "
         "point / onto its operand, Add of decoded / fresh points / onto its operand, Double, Neg of a decoded / a fresh point / in "
         "place, Set of a fresh point, RandomG1/G2 from a seeded source, the three decoders incl. over a used receiver, a copy of the "
         "generator, the point at infinity as [0]G/[N]G, P+(-P), [N]P and decoded zeros) x every consumer (Marshal, "
         "MarshalUncompressed, MarshalCompressed, String, IsOnCurve, Equal as receiver and as argument, Pair, Miller+Finalize, Add "
         "as first / second / both operands, ScalarMult, Neg, Double, Set as source, and the in-place forms that leave a new fresh "
         "value behind: aliased Add/Neg/Double/ScalarMult, Unmarshal, UnmarshalCompressed, Set, ScalarBaseMult onto the element): "
         "the element is computed twice from the same inputs, the twin is seen through Marshal() first and compared with ref/bn, "
         "the other gets the consumer as its very first operation and then 6 (GT: 5; thorough: all) further consumers in seeded order on "
         "the same object, each checked again (encodings against ref/bn, Pair/Miller with [m/s]generator of the other group against "
         "g0^m in the Fp12 model, String against the String of an element decoded from the reference bytes, IsOnCurve must hold, "
         "the result of Equal is representation-sensitive and not judged), Marshal() at the end, twin unchanged; the same scheme "
         "for GT (producers Pair, Miller+Finalize, ScalarMultGT, ScalarBaseMultGT incl. an own table of a fresh element, "
         "GT.ScalarMult, GT.ScalarBaseMult, Add, Set, SetOne, Unmarshal, RandomGT x consumers Marshal, String, Marshal+Unmarshal "
         "round trip, Set, Add in every operand position, GT.ScalarMult, ScalarMultGT, GenerateGTFieldTable+ScalarBaseMultGT with "
         "the element as base, aliased Add/ScalarMult, Set/SetOne/Unmarshal/ScalarBaseMult onto it, Finalize in place). "
         "A case is non-trivial unless marked; "
         "distinct = distinct class keys (configuration | workload / family / window position and value / scalar family / "
         "representation / candidate kind / producer x first consumer)",
    jobs=both("c09.g1", _CFG, shards=(2, 8), floor=1000) + both("c09.g2", _CFG, shards=(2, 8), floor=1000)
    + both("c09.gt", _CFG, shards=(2, 8), floor=1000) + both("c09.pairing", _CFG, shards=(4, 16), floor=200)
    + both("c09.decode", _CFG, shards=(2, 8), floor=200) + both("c09.first", _CFG, shards=(2, 8), floor=1000)
    # the plugin-tag build: gfp_plugin_amd64.s with the generic gfp2/g1 helpers
    + plugin("c09.g1", shards=(1, 4), floor=1000) + plugin("c09.g2", shards=(1, 4), floor=1000)
    + plugin("c09.gt", shards=(1, 4), floor=1000) + plugin("c09.pairing", shards=(2, 8), floor=200)
    + plugin("c09.decode", shards=(1, 4), floor=200) + plugin("c09.first", shards=(1, 4), floor=1000),
    assumptions=[
        "reference model harness/ref/bn (Fp, Fp2, Fp12 = Fp[w]/(w^12+2), affine G1/G2, encodings), validated at every child start: "
        "BN polynomials, [n]P1 = [n]P2 = O, twist order n(2p-n), GM/T 0044.5 annex A/B/C key, signature and ciphertext points, the "
        "three published pairing values have order n and satisfy A^(keB*rB) = B2^ks and B1^rB = B2^rA in the model",
        "the pairing has no independent implementation: e(P1,P2) is pinned as the unique ks-th root of order n of the published "
        "e(P1,[ks]P2), every other pairing value follows by bilinearity on multiples of the generators",
        "compressed infinity is outside the documented domain (MarshalCompressed documents undefined behaviour for infinity): "
        "02||0.. / 03||0.. taken as the point at infinity by UnmarshalCompressed is recorded as an observation "
        "(event obs_compressed_zero_x_infinity_accepted), not judged; the uncompressed all-zero string is the library's documented "
        "encoding of infinity and must round-trip",
        "points of the twist outside the order-n subgroup: the property does not demand a subgroup check, either verdict of the G2 "
        "decoders is allowed (events decode.unspecified-*), but an accepted one must re-encode identically",
        "ScalarMult/ScalarMultGT with scalar lengths other than 32 bytes: refusal or the correct multiple are both accepted",
        "G1/G2.Equal compares projective representations: its result on two representations of one point is not judged "
        "(events first.equal-not-judged.*), only that it leaves both operands intact; String has no specified format: it must be "
        "the text the library prints for an element decoded from the reference encoding of the same value; MarshalCompressed and "
        "Miller are not applied to the point at infinity (outside their documented domain) and the verdict of IsOnCurve on it is "
        "not judged",
    ],
)

CLAIM = dict(
    text="Runtime monitoring of the SM9 groups: G1 and G2 scalar multiplication (fixed and variable base, every window value at every "
         "window position, structured and random scalars including n, n+1, 2^256-1), addition with all exceptional cases, negation, "
         "doubling and all encodings are compared with exact affine big-integer arithmetic; GT multiplication and the four "
         "exponentiation entry points with exact arithmetic in Fp[w]/(w^12+2); the pairing with the GM/T 0044.5 published values, with "
         "g0^(ab) for e([a]P1,[b]P2), with its laws and with f^((p^12-1)/n) for the final exponentiation; the five decoders with a "
         "strict reference accept set (canonical coordinates, on curve, re-encoding identical); every exported operation as the first "
         "one to touch an element freshly produced in every way the API offers (projective results are normalised in place by the "
         "encoders, String and IsOnCurve), followed by the others in seeded order on the same object, for G1, G2 and GT. ADX, non-ADX, AVX2/SSE select, "
         "plugin-tag assembly (with and without ADX) and purego back ends. Held on the cases executed; not a proof.",
    design_ref="DESIGN.md 6 (C09)",
    note="trusted: harness/ref/bn, math/big, the published GM/T 0044.5 values; no independent Miller loop; subgroup membership of "
         "decoded G2 points is not demanded; arm64/ppc64le assembly is not executed here",
    technique="differential reference monitor (groups, GT) + algebraic laws and published values (pairing) + accept-set monitor (decoders)",
)
