# plan and claim for C06 (SM2 signatures); J and both are injected by driver/plan.py
_CFG = ["avx2", "noadx", "purego"]
PLAN = dict(
    level="exploration",
    rule="complete: grid first-signer (11 signing entry points) x planted random stream (none, rejected first block, the three retry "
         "conditions r=0 / r+k=n / s=0 forced through the digest, k=1, k=n-1) with key constructor, scalar class (1, 2, n-2, n-3, 2^255, "
         "small, random), identifier class (0, 1, 16, explicit default, random, 8191, 8192) and message length (0..300, SM3 block "
         "boundaries) drawn per index; three signatures per key object; every signature goes to every verifying entry point and the "
         "reference. sound: per valid base signature (library- or reference-made) seven candidate families - framing (every "
         "truncation, trailing/leading bytes, every value of every header byte), DER-aware edits, content-octet substitutions of r "
         "and of s, (r,s) value edits, foreign key/message/identifier/digest, random - each candidate's library verdict must equal "
         "the reference verdict in both directions; identity mutants are skipped. edge: signatures constructed without the library "
         "(prescribed structured r,s with the digest solved for, t=0 traps, x(R) outside [0,n), final addition = doubling or infinity, "
         "reference signer with extreme k and d, digest lengths 0..100 and digests >= n). history: every sequence of three signing "
         "operations (6 operations) on key objects with d in {n-1, n, n+1, n+5, 2n-1, 2^256-1, 2^256, 2^256+n-1} on the SM2 curve and on "
         "legacy curves (NIST P-224/256/384/521, generic SM2 copy, secp160r1, a parameter set whose order is 0), plus longer random sequences; every call must return an error, no panic, bounded reads. legacy: math/big path "
         "(sm2_legacy.go) on NIST P-224/256/384/521, a generic copy of the SM2 parameters and custom secp192r1 / secp160r1 (161-bit "
         "order): every signing entry point x planted random stream (none; the retry conditions r=0 / r+k=n / s=0 forced through the "
         "digest; rejected first block 0 or in [n, 2^bitlen(n)); k=1; k=n-1; blocks spelled as the path reads them, surplus high bits "
         "of the first octet filled), honest signature to every verifying entry point that reaches the path (sm2 and smx509) and "
         "the reference; a small accept-set sweep on the unplanted cases. ledge: the same curves, nothing made by the library: "
         "prescribed (r,s) from a per-curve table (1, 2, 3, octet/sign-octet/word boundaries, 2^(bits-1), n-1.., (n+-1)/2, the gap "
         "2^bitlen(n)-n and its neighbours, the octet-length gap) with the digest solved for; traps (r+s=n, r or s congruent to 0); "
         "prescribed point R (abscissa in [n,p), next to 0/p/n) with structured s, chosen digest (32 bytes, tiny, e and e+n, longer "
         "than the order) and solved verification key; reference signer with extreme k,d in message mode; honest legacy signatures "
         "with prescribed structured (r,s) (scripted nonce, solved key). Around every constructed pair ~55 out-of-range / re-encoded "
         "neighbours: v+n, v+2n, v-n, -v, two's-complement twin, the largest v+kn below 2^bitlen(n) / 2^(8 octets) / 2^(8 octets-1), "
         "the smallest from 2^bitlen(n) on, v+2^bitlen(n), 0, n, n+1, 2^bitlen(n)-1, 2^bitlen(n), members of [n,2^bitlen(n)), for r, "
         "for s and for both; extra leading zero octets, fixed-width contents, dropped sign octet, trailing byte, long-form length; "
         "plus in-range neighbours (r+1, s-1, swapped, n-r, n-s, one digest bit). Also a constructed valid signature under keys that are "
         "not points of the curve (never accepted; the standard library's panic on such operands is counted, not judged) and "
         "parameter sets whose order is 0 (never accepted, no panic). Non-trivial = every case (none is an identity case); distinct = "
         "distinct class keys (configuration | workload-specific key: signer/plant/uid/msg class/call index; candidate family/origin/"
         "key constructor/scalar class/integer lengths; edge construction and values; curve/scalar/operation sequence)",
    jobs=both("c06.complete", _CFG + ["avx", "ia32"], shards=(4, 16), floor=100)  # avx: SSE table select / point-add epilogues of sm2ec
    + both("c06.sound", _CFG, shards=(16, 16), floor=200)
    + both("c06.edge", _CFG + ["ia32"], shards=(4, 8), floor=100)
    + both("c06.history", _CFG + ["avx", "ia32"], shards=(2, 4), floor=500)
    # the math/big path has no dispatch tier of the library below it (noadx only switches sm2ec/bigmod code it never enters)
    + both("c06.legacy", ["avx2", "purego"], shards=(2, 8), floor=60)
    + both("c06.ledge", ["avx2", "purego"], shards=(2, 8), floor=150),
    assumptions=["reference SM2 signature model in harness/ref/sm2sig over harness/ref/ec and harness/ref/sm3 (validated at every child "
                 "start against the GM/T 0003.5 signature example, the signature vectors in the library's tests, and encoding/asn1 for "
                 "the DER reader)",
                 "digests that are not 32 bytes: the library's documented rule (leftmost 32 bytes, integer reduced mod n) is the oracle; "
                 "for digests shorter than 32 bytes only acceptances are judged",
                 "legacy-path cases (every curve other than the sm2ec singleton) are decided by harness/ref/wec: GB/T 32918.2 over affine big-integer "
                 "arithmetic for the numbers of the curve, validated at every child start against the signature example of GB/T 32918.2 "
                 "annex A.2 on the standard's example curve, crypto/elliptic's NIST curves and ref/ec + ref/sm2sig on the SM2 numbers; "
                 "digests are converted as documented (leftmost bitlen(n) bits)",
                 "NIST P-256 signing through the legacy path is not exercised in the purego build (crypto/elliptic's P-256 Inverse panics "
                 "there: toolchain limitation); verification on P-256 is"],
)

CLAIM = dict(
    text="Runtime monitoring of the sm2 signing and verifying entry points (SignASN1, PrivateKey.Sign with every option form, SignWithSM2, "
         "the legacy big.Int functions, VerifyASN1, VerifyASN1WithSM2, Verify, VerifyWithSM2, smx509 CheckSignature / "
         "CheckSignatureWithDigest / CreateCertificate) against an independent GB/T 32918.2 model with a strict DER reader: every honest "
         "signature must satisfy the reference equation and be accepted everywhere; for several hundred thousand candidates per run "
         "(mutations of valid signatures, constructed edge signatures, foreign keys/messages/identifiers, random pairs) the library's "
         "verdict must equal the reference's in both directions; signing with a scalar >= n-1 must fail on every call of every "
         "three-operation history without panicking and within a logical read budget (256 blocks on invalid keys; 4096 blocks per honest signing call). "
         "The math/big path for other curves (NIST P-224/256/384/521, generic SM2 copy, custom secp192r1/secp160r1) is held to the same "
         "accept set by signatures constructed without the library (prescribed tiny / boundary / near-n r and s, solved digests and "
         "keys) and every out-of-range or re-encoded alias of them that still fits the bit or octet length of n, at all sm2 and smx509 "
         "entry points that reach it. Three arithmetic back ends (ADX+BMI2, plain "
         "MULQ, pure Go). Held on the cases executed; not a proof.",
    design_ref="DESIGN.md 6 (C06)",
    note="trusted: harness/ref/sm2sig, ref/ec, ref/sm3, math/big, encoding/asn1 (self test only), harness/ref/wec (generic-curve model; crypto/elliptic "
         "only in its self test); soundness is decided on the candidate classes listed in the rule",
    technique="accept-set monitor (both directions) + differential reference + history monitor with scripted random source and logical retry budget + panic monitor",
)
