# plan and claim for C02 (SM4 block function)
_CFG = ["avx2", "avx", "sse", "aesni1", "noaes", "noclmul", "noclmul-avx", "purego", "ia32"]
PLAN = dict(
    level="exploration",
    rule="block: all 128 single-bit, 128 single-zero-bit, 256 repeated-byte, 16x256 one-byte-position, ascending and multiplicative "
         "patterns as key, as block and as both, plus seeded random pairs, each processed alone (disjoint guarded buffers and in "
         "place, both directions); batch: every batch size 1..40 through the ECB encrypter/decrypter and the exact-size "
         "EncryptBlocks/DecryptBlocks interface, structured blocks planted at rotating lanes, every output block compared "
         "individually with the reference; keysize: every key length 0..64. Distinct = distinct class keys "
         "(configuration | path / pattern class / batch size / alias mode / guard side)",
    jobs=both("c02.block", _CFG, shards=(2, 12), floor=100) + both("c02.batch", _CFG, shards=(2, 12), floor=100)
    + both("c02.keysize", _CFG, shards=(1, 1), floor=10),
    assumptions=["reference SM4 in harness/ref/sm4 (GB/T 32907 annex A example 1 at every child start, the 1 000 000-iteration "
                 "example 2 in shard 0 of every job)"],
)

CLAIM = dict(
    text="Runtime monitoring of sm4.NewCipher blocks against an independent textbook SM4: structured and random key/block pairs "
         "through Encrypt/Decrypt alone and at every lane of 1..40-block batches (asm ECB 16/8/4/1 loops, 4/8-block batch "
         "interface), in place and into guard-page buffers, in seven dispatch configurations (AES-NI AVX2/AVX/SSE, single-block "
         "AES-NI, AES-NI without PCLMULQDQ (another constructor branch), table-driven Go, purego). Held on the cases executed; not a proof over all 2^256 pairs.",
    design_ref="DESIGN.md 6 (C02)",
    note="trusted: harness/ref/sm4, Go runtime, kernel page protection; arm64/ppc64le assembly and SM4-NI are not executed here",
    technique="differential reference monitor per lane + guard-page buffers across dispatch tiers",
)
