# plan and claim for C19 (block-cipher MACs)
_CFG = ["avx2", "aesni1", "noaes", "purego", "ia32"]  # aesni1: the MACs call Block.Encrypt one block at a time, which has its own AES-NI routine
PLAN = dict(
    level="exploration",
    rule="tags: 8 constructions x {SM4, AES-128, DES, 3DES} x paddings (default, method 2, method 3 where selectable) x message "
         "lengths 0..80 x tag sizes (quick: full, half, 1+len mod bs; thorough: every size 1..block), each tag compared with the "
         "reference on a fresh object, after 1-3 other messages, and twice on a slice with spare capacity; method 3 also at 8191..8193 "
         "bytes (third length byte); refused constructors (invalid size, both entry points) leave the key slices and a following "
         "valid construction intact. buffers: constructions x ciphers x paddings (default, method 2, method 3, PKCS#7, X9.23 through "
         "the WithPadding constructors) x 8 placements of the caller's two key slices (exact, dirty spare capacity, adjacent in one "
         "buffer, the same slice twice, guard page at the end / at the start / misaligned, adjacent before a guard page): a "
         "constructor history on the SAME slices (A, a refused call, an object of another construction, a second padding and size, "
         "a twin of A, one object left unused; one shared parent cipher.Block or one per object), every object used interleaved on "
         "messages in 6 buffer placements (exact, nil, spare capacity one short of / exactly / beyond the padding, guard pages) with "
         "the key slices and the message compared with private copies after every call, the message buffer overwritten as soon as "
         "MAC returned, all tags handed out re-compared at the end and then overwritten over their whole capacity, and finally the "
         "key buffers overwritten, every tag against the reference for the original key values. cmacstream: seeded random "
         "Write/Sum/Reset histories on CMAC with every chunk in a caller buffer of random placement that is overwritten after Write "
         "returned, Sum appending to prefixes with spare capacity short of / exactly / beyond the tag (also ending at a guard page), "
         "returned slices overwritten, Write's (n, err) and BlockSize(); inject: every single-bit flip of the last block with a "
         "full-size tag. Distinct = class keys (configuration | construction / cipher / padding / length class / size class / "
         "key or buffer placement)",
    jobs=both("c19.tags", _CFG, shards=(4, 16), floor=100) + both("c19.cmacstream", _CFG, shards=(2, 16), floor=100)
    + both("c19.inject", _CFG, shards=(2, 8), floor=50) + both("c19.buffers", _CFG, shards=(2, 12), floor=100),
    assumptions=["reference constructions in harness/ref/mac (validated at every child start against the GB/T 15852.1 annex B "
                 "vectors for SM4) over harness/ref/sm4 and the standard library's AES/DES/3DES"],
)

CLAIM = dict(
    text="Runtime monitoring of the eight cbcmac constructions against independent reference compositions: tag value, tag length, "
         "Size(), independence of object history, of constructor history on the same key slices and of the placement, capacity and "
         "later contents of every caller buffer (key slices, message, Write chunk, Sum destination, returned tags; none of them "
         "modified or retained by the library), CMAC streaming histories, and single-bit injectivity of the final-block "
         "transformation, over SM4 and 8/16-byte stdlib ciphers in five dispatch configurations.",
    design_ref="DESIGN.md 6 (C19)",
    note="trusted: harness/ref/mac, ref/pad, ref/sm4, stdlib AES/DES; the CBCR shift-not-rotate defect is an open finding matched "
         "by predicate + bug model",
    technique="differential reference monitor + history-independence and buffer-independence monitor (private copies, guard pages) + bit-flip injectivity sweep",
)
