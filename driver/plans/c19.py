# plan and claim for C19 (block-cipher MACs)
_CFG = ["avx2", "aesni1", "noaes", "purego", "ia32"]  # aesni1: the MACs call Block.Encrypt one block at a time, which has its own AES-NI routine
PLAN = dict(
    level="exploration",
    rule="tags: 8 constructions x {SM4, AES-128, DES, 3DES} x paddings (default, method 2, method 3 where selectable) x message "
         "lengths 0..80 x tag sizes (quick: full, half, 1+len mod bs; thorough: every size 1..block), each tag compared with the "
         "reference on a fresh object, after 1-3 other messages, and twice on a slice with spare capacity; cmacstream: seeded random "
         "Write/Sum/Reset histories on CMAC; inject: every single-bit flip of the last block with a full-size tag. Distinct = class "
         "keys (configuration | construction / cipher / padding / length class / size class)",
    jobs=both("c19.tags", _CFG, shards=(4, 8), floor=100) + both("c19.cmacstream", _CFG, shards=(2, 4), floor=100)
    + both("c19.inject", _CFG, shards=(2, 4), floor=50),
    assumptions=["reference constructions in harness/ref/mac (validated at every child start against the GB/T 15852.1 annex B "
                 "vectors for SM4) over harness/ref/sm4 and the standard library's AES/DES/3DES"],
)

CLAIM = dict(
    text="Runtime monitoring of the eight cbcmac constructions against independent reference compositions: tag value, tag length, "
         "Size(), independence of object history and of the caller's slice capacity, CMAC streaming histories, and single-bit "
         "injectivity of the final-block transformation, over SM4 and 8/16-byte stdlib ciphers in three dispatch configurations.",
    design_ref="DESIGN.md 6 (C19)",
    note="trusted: harness/ref/mac, ref/pad, ref/sm4, stdlib AES/DES; the CBCR shift-not-rotate defect is an open finding matched "
         "by predicate + bug model",
    technique="differential reference monitor + history-independence monitor + bit-flip injectivity sweep",
)
