# plan and claim for C07 (SM2 public-key encryption); J and both are injected by driver/plan.py
_CFG = ["avx2", "avx", "noadx", "purego"]

PLAN = dict(
    level="exploration",
    rule="round trip: nested enumeration (repetition x message length 1..200,255,256,1000 x {content kind, message = mask so that C2 is "
         "all zero}) with key kind, ephemeral-scalar kind and content kind rotating; every case runs the 9 encryption variants "
         "against a scripted k and the 5 decryption entry points on every distinct ciphertext, plus a wrong key; constructed corner "
         "cases (coordinates of C1 / of the shared point with a leading zero byte, scalars whose 1- or 2-byte mask is all zero, "
         "structured k and d); tamper: one case = one valid ciphertext in one serialisation with every single-byte substitution "
         "(^01 ^80 =00 =ff), every truncation and two extensions; convert: every converter chain of depth <= 3 from every layout; "
         "hostile: hand-made invalid inputs by family; envelope: enveloped-key round trips, reference-built envelopes, mutants. "
         "distinct = distinct class keys (configuration | curve / length class / content / key kind / k kind, resp. serialisation, "
         "chain start, family); the empty-message cases are trivial",
    jobs=both("c07.roundtrip", _CFG + ["ia32"], shards=(3, 12), floor=400)
    + both("c07.legacy", ["avx2", "purego"], shards=(2, 8), floor=200)
    + both("c07.tamper", _CFG, shards=(3, 12), floor=60)
    + both("c07.convert", _CFG + ["ia32"], shards=(2, 8), floor=100)
    + both("c07.hostile", _CFG, shards=(1, 4), floor=20)
    + both("c07.envelope", ["avx2", "noadx", "purego"], shards=(1, 4), floor=10),
    assumptions=[
        "harness/ref/sm2enc (GB/T 32918.4 over ref/ec big-integer affine arithmetic and ref/sm3) is right: it reproduces every "
        "intermediate value of the GM/T 0003.5 annex C encryption example before each run",
        "for the legacy path the group arithmetic of the reference is crypto/elliptic P-256 (Go standard library)",
        "a decoder may refuse or take hybrid (06/07) C1 encodings and BER variants of the ASN.1 layout; only 04 / 02 / 03 and DER are demanded",
    ],
)

CLAIM = dict(
    text="Runtime monitoring of sm2.Encrypt/EncryptASN1, sm2.Decrypt, PrivateKey.Decrypt (nil, plain C1C3C2/C1C2C3, ASN.1 options), "
         "the three layout converters and the enveloped-key helpers, on the SM2 curve (assembly with and without ADX/AVX2, and the "
         "pure Go build) and on NIST P-256 keys (legacy path). For every message length 1..200, 255, 256, 1000 the library encrypts "
         "with an ephemeral scalar chosen by the harness, so every ciphertext is compared byte for byte with an independent "
         "GB/T 32918.4 implementation and then decrypted through every entry point; ciphertexts the library did not make - "
         "in particular those with an all-zero C2, with leading-zero coordinates, and for scalars whose mask is all zero (restart / "
         "refusal) - are constructed by the reference and must be decrypted resp. refused. Every single-byte substitution and "
         "truncation of valid ciphertexts in every layout, off-curve / infinity / non-canonical C1, wrong keys and 0-3 byte inputs "
         "must give an error, never a panic and never another plaintext; the verdict on each mutant comes from the reference "
         "decryption. Exploration over keys, scalars and message contents; the listed lengths, layouts, option combinations, "
         "converter chains to depth 3 and single-byte mutants of the sampled ciphertexts are enumerated completely.",
    design_ref="DESIGN.md 6 (C07)",
    note="trusted: harness/ref/sm2enc, ref/ec, ref/sm3, ref/sm4 (envelope), crypto/elliptic P-256, math/big; message contents, keys and "
         "scalars beyond the structured kinds are sampled",
    technique="differential reference monitor with chosen ephemeral scalar + accept-set monitor over mutants + panic monitor",
)
