# plan and claim for C07 (SM2 public-key encryption); J and both are injected by driver/plan.py
_CFG = ["avx2", "avx", "noadx", "purego"]

def _split(lines):
    """the 32-bit jobs first: they are the slowest, so they must not wait for a free worker"""
    return [ln for ln in lines if ln["variant"] == "ia32"] + [ln for ln in lines if ln["variant"] != "ia32"]


PLAN = dict(
    level="exploration",
    rule="round trip: nested enumeration (repetition x message length 1..200,255,256,1000 x {content kind, message = mask so that C2 is "
         "all zero}) with key kind, ephemeral-scalar kind and content kind rotating; every case runs the 9 encryption variants "
         "against a scripted k and the 5 decryption entry points on every distinct ciphertext, plus a wrong key; constructed corner "
         "cases (coordinates of C1 / of the shared point with a leading zero byte, scalars whose 1- or 2-byte mask is all zero, runs "
         "of 2..130 such scalars in a row, structured k and d; the table of searched ephemeral scalars for which x1, y1 or both have "
         "1, 2 or 3 leading zero octets with the top bit of the next octet set / clear - 13 shapes on the SM2 curve, 14 on P-256, 8-10 "
         "on P-224/P-384/P-521, first three scalars of every shape in quick, every entry re-validated with the reference arithmetic "
         "at workload start - and scalars for which the shared point has two leading zero octets); tamper: one case = one valid ciphertext in one serialisation with "
         "every single-byte substitution (^01 ^80 =00 =ff), every truncation and two extensions; convert: every converter chain of "
         "depth <= 3 from every layout, also for the scalars of the shape table and for points C1 with a tiny x (1..31 leading zero "
         "octets, ciphertext made with the private key); hostile: hand-made invalid inputs by family (plus, for the panic monitor only, invalid public "
         "keys, option values outside the exported constants, key objects whose scalar is 0 or >= n); envelope: enveloped-key round "
         "trips, reference-built envelopes, mutants, envelopes made with the scalars of the shape table; curves: round trips (9 lengths x {content, all-zero C2}), tamper sweeps of all 7 "
         "serialisations and the hostile families on P-224, P-384 and P-521 keys; keyobj: one case = one history on one "
         "*sm2.PrivateKey: every ordered pair of uses (5 decryption entry points + ParseEnvelopedPrivateKey) with and without "
         "FromECPrivateKey on the same receiver in between, every constructor (8) x every first use followed by a damaged "
         "ciphertext and a second use, random histories of 5-10 steps (use with a ciphertext for the current / a previous key / a "
         "damaged one, re-key, refused re-key, Sign, MarshalEnvelopedPrivateKey of the object, Encrypt to the object's public key), "
         "thorough: all triples of uses x re-key position; mixed: one case = one history of library calls played back to back in "
         "one process: every ordered pair (A,B) of the 12 traffic classes {SM2, P-256, P-224, P-384, P-521 keys, direct sm3.Kdf} x "
         "{4-7, 8+ KDF blocks} as A B A B with encryption and decryption alternating, and random histories of 40-60 steps "
         "(encryptions, decryptions through all entry points, converters, KDF and hash calls of other input lengths) over two SM2 "
         "key objects and 2-3 other curves in random order; "
         "der: one case = one valid ASN.1 ciphertext (curve x {C1 from a random k, from the shape table, with x1 < 2^bits - p, inside "
         "an enveloped key}) x one family of structured re-encodings with consistent lengths (negative: -x1, -y1, x1-p, x1-2^w, "
         "dropped / ff sign octet; lifted: +p, +2p, +2^w; padded INTEGERs; each of the five lengths in the 1..5-octet long forms; "
         "extra element of six kinds at four positions; trailing bytes; 6-7 other tags per element incl. high-tag-number form; all "
         "23 other element orders; indefinite lengths; constructed / nested forms; other widths of x1, y1, C3, C2), every mutant "
         "through the 5 decryption entry points, 7 converter calls (SM2 curve) and ParseEnvelopedPrivateKey (as symEncryptedKey); "
         "long: message lengths 8160, 8161, 8199, 8289, 12000, 16417, 16550, 65537, 65700 on the SM2 curve (255..2054 KDF blocks, "
         "block count = 0, 1, 2, 4, 6, 7 mod 8) and one or two of them on P-224/P-256/P-384/P-521 (other KDF input lengths), thorough 32 "
         "lengths up to 2 MiB (counter octet three; 64-bit builds), 3-5 encryption variants byte-equal to the reference, 3-7 decryptions "
         "of the reference ciphertext, C2 bits flipped behind block 255, two converters; buffers: one case = curve x arena shape "
         "(9: spare capacity 0, 1, 31, 32, 33, mlen, mlen+32, 2len+64 x capacity ending at the argument / behind the spare zone / at "
         "the end of the arena) x message length, every entry point (9 encryption variants, 5 serialisations x 5 decryption entry "
         "points, every converter call from every layout, ParseEnvelopedPrivateKey / MarshalEnvelopedPrivateKey) with its byte-slice "
         "argument inside the arena. "
         "distinct = distinct class keys (configuration | curve / length class / content / key kind / k kind, resp. serialisation, "
         "chain start, family, pair of uses / constructor / shape of the history, pair of traffic classes); the empty-message and "
         "panic-monitor-only cases are trivial",
    jobs=_split(
        both("c07.roundtrip", _CFG + ["ia32"], shards=(3, 12), floor=400)
        + both("c07.legacy", ["avx2", "purego"], shards=(2, 8), floor=200)
        + both("c07.tamper", _CFG, shards=(3, 12), floor=60)
        + both("c07.convert", _CFG, shards=(2, 8), floor=100) + [J("c07.convert", ["ia32"], "ia32", (3, 8), floor=100)]
        + both("c07.hostile", _CFG, shards=(1, 4), floor=20)
        + both("c07.envelope", ["avx2", "noadx", "purego"], shards=(1, 4), floor=10)
        + both("c07.keyobj", _CFG, shards=(1, 6), floor=150) + [J("c07.keyobj", ["ia32"], "ia32", (2, 6), floor=150)]
        + both("c07.mixed", _CFG + ["sse"], shards=(2, 8), floor=150)
        + [dict(J("c07.mixed", ["ia32"], "ia32", (4, 12), floor=150), thorough_only=True)]  # 32-bit build: one-at-a-time KDF only
        + both("c07.der", ["avx2", "purego", "ia32"], shards=(1, 4), floor=150)
        + both("c07.long", _CFG + ["sse", "ia32"], shards=(1, 3), floor=10)
        + both("c07.buffers", ["avx2", "purego", "ia32"], shards=(1, 3), floor=60)
        + [J("c07.curves", ["avx2"], "asm", (3, 8), floor=90)]
        + [dict(J("c07.curves", ["purego"], "purego", (3, 8), floor=90), thorough_only=True)]),  # crypto/elliptic carries the path
    assumptions=[
        "harness/ref/sm2enc (GB/T 32918.4 over ref/ec big-integer affine arithmetic and ref/sm3) is right: it reproduces every "
        "intermediate value of the GM/T 0003.5 annex C encryption example before each run",
        "for the legacy path the group arithmetic of the reference is crypto/elliptic P-224 / P-256 / P-384 / P-521 (Go standard "
        "library), checked against the key pairs of RFC 6979 A.2.4-A.2.7 before each run",
        "the key pair a *sm2.PrivateKey holds is the one its constructor or its last successful FromECPrivateKey call installed; "
        "a call that returns an error changes nothing; assigning to exported fields of a live object is not a way of re-keying",
        "the shape table (harness/wl/c07/shapes.go) was found by an offline search with the library's own scalar multiplication; "
        "it is only a list of candidates: every entry is recomputed with the reference arithmetic before use",
        "a decoder may refuse or take hybrid (06/07) C1 encodings; only 04 / 02 / 03 and DER are demanded. For the ASN.1 layout the "
        "accept-set of c07.der is the canonical DER encoding alone (the property: every other byte string gives an error), after it "
        "was confirmed that the pinned library refuses every family generated there; the older workloads (hostile, tamper) keep counting "
        "a right plaintext from a tolerantly read BER variant instead of judging it",
        "the converters have no key: what is asked of their input is canonical structure and C1 on the curve; that they carry a C3 of "
        "another size (which decryption then refuses) is recorded, not judged; AdjustCiphertextSplicingOrder with from == to returns "
        "its argument itself by design (counted)",
    ],
)

CLAIM = dict(
    text="Runtime monitoring of sm2.Encrypt/EncryptASN1, sm2.Decrypt, PrivateKey.Decrypt (nil, plain C1C3C2/C1C2C3, ASN.1 options), "
         "the three layout converters and the enveloped-key helpers, on the SM2 curve (assembly with and without ADX/AVX2, the "
         "pure Go build and the 32-bit build) and on NIST P-256, P-224, P-384 and P-521 keys (legacy path). For every message length "
         "1..200, 255, 256, 1000 the library encrypts "
         "with an ephemeral scalar chosen by the harness, so every ciphertext is compared byte for byte with an independent "
         "GB/T 32918.4 implementation and then decrypted through every entry point; ciphertexts the library did not make - "
         "in particular those with an all-zero C2, with C1 coordinates of 1, 2, 3 (converters: up to 31) leading zero octets in x, in y and "
         "in both (short DER INTEGERs, padded field elements; through every encryption variant, decryption entry point, converter "
         "chain and the enveloped-key functions), and for scalars whose mask is all zero (restart / "
         "refusal, also in runs up to and beyond the library's retry limit) - are constructed by the reference and must be decrypted "
         "resp. refused. Every single-byte substitution and "
         "truncation of valid ciphertexts in every layout, off-curve / infinity / non-canonical C1, wrong keys and 0-3 byte inputs "
         "must give an error, never a panic and never another plaintext; the verdict on each mutant comes from the reference "
         "decryption. Histories: on one key object (every constructor; first, second and third use through every decryption entry "
         "point and ParseEnvelopedPrivateKey; FromECPrivateKey on a used receiver, after which ciphertexts for the new key must be "
         "decrypted and ciphertexts for the old key refused; refused ciphertexts and refused re-keying in between; signing, "
         "enveloping and encrypting to the object's own public key as traffic) and in one process (keys on five curves, all "
         "classes of KDF input and output length, encryption, decryption, converters, direct KDF and hash calls interleaved and "
         "executed back to back with long-lived option objects and caller buffers that must come back unchanged; every ordered "
         "pair of multi-lane KDF traffic classes in every SM3 dispatch tier), each step judged by the reference as above. "
         "ASN.1 accept-set: structured re-encodings of valid ASN.1 ciphertexts with consistent lengths (negative and lifted "
         "coordinates, padded INTEGERs, long-form and indefinite lengths, extra elements, trailing bytes, other tags, element order, "
         "constructed forms) must be refused by every decryption entry point, by the converters and by ParseEnvelopedPrivateKey: only "
         "the canonical DER encoding of a ciphertext that the reference opens gives a plaintext. Long messages (8160 bytes to 64 KiB, "
         "thorough 2 MiB: KDF counters beyond one and two octets, every remainder of the 8- and 4-lane batches) are compared with the "
         "reference in both directions in every dispatch configuration including SSE and the 32-bit build. Caller memory: every "
         "byte-slice argument of every entry point lies in an arena with canary-filled spare capacity and neighbour data; the arena "
         "is unchanged after the call (argument not modified, nothing appended in place behind it), results do not change when the "
         "caller reuses the buffer or during later calls, key objects keep their values. "
         "Exploration over keys, scalars, message contents and history shapes; the listed lengths, layouts, option combinations, "
         "converter chains to depth 3, pairs of uses, pairs of traffic classes and single-byte mutants of the sampled ciphertexts "
         "are enumerated completely.",
    design_ref="DESIGN.md 6 (C07)",
    note="trusted: harness/ref/sm2enc, ref/ec, ref/sm3, ref/sm4 (envelope), crypto/elliptic P-224/P-256/P-384/P-521, math/big; message "
         "contents, keys, scalars beyond the structured kinds and the random histories are sampled; a failing random source is C12's, "
         "first use from several goroutines C20's",
    technique="differential reference monitor with chosen ephemeral scalar + accept-set monitor over byte and structure-aware DER mutants "
              "+ history (object and process) monitor + caller-memory (arena / canary) monitor + panic monitor",
)
