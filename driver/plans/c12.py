# plan and claim for C12 (ephemeral secrets are exactly the sampled random bytes; RNG failure is an error)
# J and both are injected by driver/plan.py
PLAN = dict(
    level="fault_enumeration",
    rule="clause 1 (c12.fidelity, c12.retry): one case = one operation entry point (SM2 sign/encrypt/GenerateKey/key-exchange init+respond, "
         "ecdh GenerateKey, the SM2 entry points with key objects that name the SM2 curve by a copy of its parameters (math/big path of the sm2 package, "
         "same rule), RepondKeyExchange with the initiator's point in a struct whose Curve field says sm2.P256(), the parameter copy, P-224, P-256, "
         "P-384, P-521 or nil (coordinates always a valid SM2 point: the draw belongs to the object's own curve), SM2 algorithms over NIST P-256 (math/big path; keys naming the curve as elliptic.P256() and as its generic *CurveParams, "
         "the latter also under purego/ia32; digests of 20..64 bytes), SM9 master key generation, sign, WrapKey, Encrypt in five modes, "
         "key-exchange init+respond; every exported wrapper is a variant) executed on a scripted random stream: structured streams "
         "(leading blocks 0, n-1, n, n+1, 2^256-1, >=n, the block that is zero after the documented XOR; then a valid block with top bits set, "
         "low bits set, 1..31 leading zero bytes, 1, 2, n-2/n-3 ...), random mixtures of those and uniform streams; forced algorithm-level "
         "retries (signature r=0, r+k=n, s=0 by choice of the digest; all-zero KDF output by stored nonces for SM2 encryption on the SM2 curve and "
         "on NIST P-256 and for SM9 encapsulation). The scalar is recovered from the "
         "output with the private key (k=s(1+d)+rd; d of generated keys) or the public part is recomputed from the candidate block with "
         "independent arithmetic, and must be the first in-range block under the documented rule; bytes consumed must be exactly what the rule "
         "explains. c12.reentrant: every ordered pair (outer operation A, inner operation B) of the catalogue x Read index k of A x placement: "
         "B runs to completion (own script, same or another goroutine) inside A's k-th Read, before the bytes are served or after they were "
         "copied into the buffer; both outputs must then satisfy the fidelity oracle on their own stream (no bits of a sampled block shared "
         "between overlapping operations). SM9 key objects are taken, by seed, from a pool of provenances (master.PublicKey(), userKey.MasterPublic(), decoded from the raw / ASN.1 / "
         "compressed encodings; user keys generated or decoded together with their master public key). c12.retryfaults: the product forced "
         "algorithm-level retry x failing source: one case = (SM2 sign r=0 / r+k=n / s=0 on the SM2 curve [both paths] and NIST P-256, SM2 encrypt t=0 "
         "on the SM2 curve [both paths] and NIST P-256, SM9 WrapKey K=0; every entry point variant) x (1 or 2 forced retries, each followed by 0 or 1 "
         "out-of-range block; quick: (1,0) and (2,1)) x (every later Read index) x (five fault kinds; source ending at the block boundary, +1, +16, "
         "+31 bytes): error, every returned value nil or empty, no panic. c12.history (object histories): one case = (kept object: one sm2.PrivateKey signing and encrypting to its "
         "own public half [SM2 curve; NIST P-256], one sm2.KeyExchange [peer given at construction or later by SetPeerParameters] and one SM9 "
         "key-exchange object used again and again in both roles, one sm9.SignPrivateKey, one sm9.EncryptMasterPublicKey wrapping and encrypting, "
         "the four key generators one after the other, any catalogue operations on new objects) x (pattern of 2..5 calls, each with its OWN scripted "
         "bytes: own healthy source / the next bytes of ONE source shared by the calls of the history / a source failing at a seeded read in a "
         "seeded way / a source ending early / Destroy() / a Respond refused for an invalid or missing peer; the first two calls walk through the "
         "ordered pairs of the object's operations): the secret of the n-th call must be the first in-range block of the bytes served to the n-th "
         "call (never a block or the scalar of an earlier one), its consumption must be explained from the offset the call started at, failing calls "
         "must return error and no output and leave nothing behind for the next call; after every healthy key-exchange call the object is driven on "
         "(ConfirmResponder / ConfirmInitiator, confirmation values) against an honest peer computed by ref/sm2kx resp. ref/sm9 for the scalar of "
         "the LATEST call, a generated ecdh key is used for ECDH and as ephemeral key of SM2MQV. State surviving a FAILED call is also looked for behind the failure: "
         "for both key exchanges (healthy call Init / Respond, left pending) x (failing call Init / Respond) x (each of the five fault kinds, premature "
         "end of the source; also two failing calls, refused calls) x (without / with confirmation values; quick: alternating) the honest peer's answer "
         "to the LAST HEALTHY call is then fed to ConfirmResponder / ConfirmInitiator, with the peer's confirmation value withheld and supplied - "
         "accept-set: refused (error, no key) or exactly the reference key and confirmations for the scalar that call sampled; and what earlier "
         "calls returned is used again with the kept object after every failed / refused call and at the end (generated keys re-read, signatures "
         "checked with the library's verifier under the key object, ciphertexts decrypted with it): the answer must be the one given when the "
         "call returned. c12.runs (length of a run of consecutive rejected blocks): one case = (operation of the catalogue; every entry point variant "
         "and every fill at least once per operation and run length, thorough: the product) x (m in 1, 2, 3, 7, 8, 15, 16, 17, 31, 32, 33, 63, 64, 65, "
         "100, 255, 256, 257, 1000 leading out-of-range blocks) x (fill: value 0 [for the key generators the raw block that is 0 after the XOR], n, "
         "2^256-1, n-1 where excluded / n+1, uniform values >= n different in every block, a mixture; thorough also n+1 and the raw block ff..ff) "
         "followed by (a) ONE in-range block: no error, scalar = that block, exactly 32(m+1) bytes (+ IV) consumed, Read log = m+1 full 32-byte reads "
         "at offsets 0, 32, ... (+ the IV), or (b) a source that fails at read m in one of the five ways or ends 0 / 1 / 16 / 31 bytes into block m "
         "(quick: one of the nine, rotating; thorough: all): read m must have been made, then error, no output, no panic. Products: run + nonce the "
         "algorithm has to discard (families of c12.retryfaults) + run + in-range block / failing source; two calls of an operation on ONE source, "
         "each behind its own run. clause 2 (c12.faults, c12.eof): one case = (entry point, number of rejected blocks first, Read index k, fault kind) resp. "
         "(entry point, rejected blocks, stream length L). distinct = distinct class keys (operation/variant/rejected-count/accepted-value class; "
         "operation/skipped-value class; operation/variant/rejected/kind/k; .../eof@L; hist/object/pattern and hist/object/call>call with their modes)",
    jobs=both("c12.fidelity", ["avx2", "noadx", "avx", "purego", "ia32"], shards=(4, 12), floor=1000)
    + both("c12.retry", ["avx2", "purego", "ia32"], shards=(1, 2), floor=40)
    + both("c12.faults", ["avx2", "purego"], shards=(2, 8), floor=1000)
    + both("c12.eof", ["avx2", "purego"], shards=(1, 4), floor=500)
    + both("c12.reentrant", ["avx2", "purego"], shards=(2, 8), floor=500)
    + both("c12.retryfaults", ["avx2", "purego"], shards=(1, 4), floor=1000)
    + both("c12.runs", ["avx2", "purego", "ia32"], shards=(2, 8), floor=1000)
    + both("c12.history", ["avx2", "purego"], shards=(2, 8), floor=300)
    + [J("c12.history", ["ia32"], "ia32", shards=(4, 8), floor=300)],
    exhaustive_note="fault enumeration is exhaustive over (entry point x rejected-blocks-first j in 0..2 (thorough 0..4) x Read index k in 0..R+1 x "
                    "{EOF/0 bytes, EOF/partial, ErrUnexpectedEOF/0 bytes, custom error, short read then error}) where R is the number of reads of the "
                    "fault-free run on the same stream (events.fault_free_runs; k >= R must go unnoticed), and over every stream length L in "
                    "0..needed bytes for a source that simply ends (all entry points in thorough; in quick one rotating entry point per operation "
                    "plus all that read an IV); inputs (keys, messages, the concrete rejected/accepted block values) are one seeded choice per case",
    assumptions=[
        "SM2-curve oracle arithmetic is harness/ref/ec + ref/sm3 (self-tested against the GB/T 32918 examples); NIST P-256 uses crypto/elliptic",
        "SM9 oracle arithmetic uses the library's own bn256 group law and pairing through the verif hook (decided by C09), composed by a plain "
        "double-and-add / generic GT exponentiation instead of the table-driven routines, with H1/H2/KDF on ref/sm3; self-tested against the "
        "GM/T 0044.5 annex A and C examples at every start",
        "the 1-byte probe of randutil.MaybeReadByte is answered from mon.Script's side channel only before the first main-stream read "
        "(wrapper in wl/c12); a failing source is modelled as failing for good from the faulted read on",
        "c12.history: the follow-up oracles of the key exchanges are ref/sm2kx (GB/T 32918.3, self-tested against the annex example) and ref/sm9.Kex "
        "with GT values from the verif hook's pairing/exponentiation; after sm2 KeyExchange.Destroy() (which wipes the identity digests) only the "
        "ephemeral point is judged, not the derived key",
    ],
)

CLAIM = dict(
    text="Runtime monitoring of every sm2 / ecdh / sm9 entry point that draws a secret scalar from a caller-supplied io.Reader. For adversarially "
         "structured and for uniform scripted streams the scalar recovered from the output (or the candidate block re-derived into the public "
         "output) equals the first 32-byte block that the documented rule accepts (0<k<n, keys 0<d<n-1, byte 1 XOR 0x42 for ecdh and SM9 master "
         "keys; next block after a rejection or an algorithm-level retry), and the Read log shows no byte consumed beyond those blocks (plus the "
         "IV of the SM9 block modes). Every ordered pair of operations is interleaved deterministically at the API boundary (the second "
         "operation runs inside a Read of the first, before and after the bytes are delivered) and both must still use exactly their own block. "
         "Object histories: every object a caller can keep (SM2 and SM9 key-exchange objects restarted in either role, after Destroy, after refused "
         "or failed calls; key objects signing / encrypting / wrapping repeatedly; the generators; one random source shared by consecutive calls) is "
         "taken through sequences of 2..5 calls with different scripted bytes per call: each call's secret is the first in-range block of its own "
         "bytes, never one of an earlier call, the key exchange then completes (key and confirmation values of the reference model) with the scalar "
         "of the latest call. A session left pending by a healthy Init / Respond is finished only after calls on the same object whose source "
         "failed in every enumerated way: the object may refuse, otherwise key and confirmations are exactly those of the scalar the healthy call "
         "sampled (nothing derived from 0, a rejected block or bytes of the failed call); earlier generated keys, signatures and ciphertexts keep "
         "giving the same answer with the kept object after failed calls. "
         "Rejection sampling is followed over runs of 1..1000 consecutive out-of-range blocks (lengths around every power of two up to 256, every "
         "kind of out-of-range value) for every operation: the scalar is the block behind the run, the Read log shows one full read per block and "
         "nothing else, and a source that fails or ends behind the run gives an error and no output - no sampler gives up, falls through or reduces "
         "after a bounded number of rejections. "
         "The peer's point of a key-exchange step may name any curve (or none) in its Curve field and SM9 key objects may come from any decoder: "
         "the draw follows the rule of the object's own algorithm. Forced algorithm-level retries are combined with every later fault position and "
         "kind: nothing the discarded attempt computed comes back with the error. Every Read position of every operation is failed in five ways, and every premature end of stream by byte "
         "offset: the operation must return an error, no output, and must not panic. Fault enumeration for the second clause, exploration of "
         "streams for the first.",
    design_ref="DESIGN.md 6 (C12)",
    note="trusted: harness/ref/ec, ref/sm3, ref/sm2kx, ref/sm9 (Kex), math/big, crypto/elliptic (NIST P-256), encoding/asn1; bn256 arithmetic through the verif hook "
         "(its correctness is C09's claim). SM9 signature l=0 retry cannot be forced (needs an H2 preimage) and is only modelled.",
    technique="scripted random source with Read-event log + scalar-recovery / recomputation oracles + exhaustive fault placement + "
              "deterministic re-entrant interleaving of operation pairs from inside the Reader + call histories on kept objects with per-call "
              "scripted bytes and protocol follow-up against reference peers",
)
