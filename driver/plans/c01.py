# plan and claim for C01 (SM3 digest and SM3-KDF)
_CFG = ["avx2", "avx", "sse", "scalar", "nobmi2", "purego", "ia32"]
PLAN = dict(
    level="exploration",
    rule="sum: every length 0..1100 (thorough: 0..4300) (x content kinds x guard placement) plus seeded long messages up to 64 KiB; history: seeded "
         "random walks over {Write, Sum, Reset, MarshalBinary->UnmarshalBinary, refused imports, AppendBinary behind a non-empty prefix, the KDF method of the running object, Size} on one hash object, the digest compared with "
         "the reference after every step (twice: Sum must not disturb the state); kdf: grid len(z) 0..200 x 17 key lengths (thorough: len(z) 0..330 x every key length 1..545 and four long ones) x four "
         "entry points (sm3.Kdf, kdf.Kdf fast path, kdf.Kdf generic with and without state export) plus seeded random pairs and the "
         "prefix law, and outputs long enough for the second and third byte of the block counter (8160 bytes .. 2 MiB + 261); bigstate: the exported state of a short prefix gets its byte counter raised by 2^29 .. 2^60 (a multiple of 64), is imported into a fresh object and continued - digest and re-exported counter must equal the reference continued from the same chaining value (reaches the high bits of the bit-length field); all inputs in guard-page buffers. Non-trivial = not the empty message; distinct = distinct class keys "
         "(configuration | workload / len mod 64 / block-count class / output-block class with lane remainder / guard side)",
    jobs=both("c01.sum", _CFG, shards=(2, 8), floor=100) + both("c01.history", _CFG, shards=(2, 8), floor=100)
    + both("c01.kdf", _CFG, shards=(2, 16), floor=100) + both("c01.bigstate", _CFG, shards=(1, 2), floor=100),
    assumptions=["reference SM3 in harness/ref/sm3 (validated against the GB/T 32905 examples at every child start)"],
)

CLAIM = dict(
    text="Runtime monitoring of sm3.Sum / sm3.New() histories / sm3.Kdf / kdf.Kdf against an independent textbook SM3 on every "
         "length residue, every block-count class of the multi-block and multi-lane assembly, random call histories with state "
         "export/import, in six dispatch configurations (AVX2+BMI2, AVX, SSSE3, scalar asm, BMI2 off, purego), inputs in guard-page "
         "buffers so that an out-of-slice access by the assembly faults. Held on the cases executed; not a proof.",
    design_ref="DESIGN.md 6 (C01)",
    note="trusted: harness/ref/sm3, Go runtime, kernel page protection; arm64/ppc64le/s390x assembly is not executed here",
    technique="differential reference monitor + history monitor + guard-page buffers across dispatch tiers",
)
