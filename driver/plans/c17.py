# plan and claim for C17 (DRBGs); J and both are injected by driver/plan.py
_CFG = ["avx2", "noaes", "purego"]   # library SM3/SM4: AVX2+AES-NI asm, table-driven Go (cpu.aes=off), purego build
# the monitors allocate a fresh caller buffer and snapshot per call and the model is allocation-heavy: with the default GOGC a
# quarter of the CPU time is garbage collection of a 20 MB heap. Collector pacing only; nothing observed depends on it.
_GC = {"GOGC": "300"}

PLAN = dict(
    level="exploration",
    rule="c17.history: one case = one random walk of 12-30 operations over {Generate(n, additional?), Reseed(entropy, additional?)} "
         "on one of 40 generator configurations (Hash and HMAC over SM3 and every hash function of SP 800-90A table 2 - SHA-1, SHA-224, "
         "SHA-512/224, SHA-256, SHA-512/256, SHA-384, SHA-512 -, CTR over SM4/AES-128/192/256, each in NIST and GM mode; SM3, SHA-256, SHA-512 "
         "and the ciphers get 500 histories each, the other hashes 200) at the test level (interval 8; 1 in 12 histories at level one/two), "
         "constructor and reseed input lengths from {0,1,min-1,min,2min,200}, request sizes from {0,1,15,16,17,31,32,33,55,111,2047,2048,2049, block-1, "
         "block, block+1, 2block+1, 4096, 2049..4096, 65536(thorough)}, every output compared with harness/ref/drbg driven by the same history. "
         "CALLER MEMORY (every call of every workload, wl/c17/arena.go): the arguments of a call - entropy, nonce, personalisation string, additional "
         "input, output buffer / Read destination - are cut out of one dirty caller buffer in random order, adjacent or 1-3 bytes apart, each "
         "slice with spare capacity to the end of the buffer, part of it, or none (1 call in 4: separate exactly sized allocations; empty requests "
         "also through nil slices); after the call the buffer must equal its snapshot outside the output slice, then every byte the library was "
         "given (and the compared output) is inverted so that a retained reference changes every later result. 1 history in 8 builds a twin "
         "generator from the same caller memory through the other constructor and uses it in between. "
         "Plus one case per configuration with requests of max+1, 4097, 65536 and 65537 bytes (all to be refused) and (thorough) one case "
         "that sleeps through the 6 s GM reseed time interval. c17.levels: one case = one generator or reader wrapper walked through a whole reseed "
         "interval: level two (every configuration, general and NIST/GM constructors; half of the cases reseed once inside the interval first): "
         "calls 1..1024 since the last (re)seed served and equal to the model, NeedReseed() then true, the following ones (sizes 1, block, 0, max+1) "
         "refused untouched, too short GM reseed refused, Reseed, served again; level one (SM3, SHA-512, SM4, AES-256 configurations): quick the first 1100 calls served, thorough all 2^20 "
         "compared and the 2^20+1st refused; undefined SecurityLevel bytes (0x00, 0x03, 0x98, 0xff): first refusal only at call 9, 1025 or 2^20+1; "
         "wrappers at level two: 1024 chained requests, the 1025th in the middle of a Read draws entropy exactly once; at level one none in 1100. "
         "c17.options: CTR constructors and wrappers with key lengths the cipher does not have (error required); entropy / personalisation / "
         "additional input of MAX_BYTES+1 bytes (refusal leaves the state and the interval count untouched, or served as specified); nil entropy "
         "source (crypto/rand): counts, no error, destination filled, nothing else written, two identically built wrappers differ. "
         "c17.reader: 6-14 Read calls of sizes {0,1,max-1,max,max+1,5max+3,random} on the reader wrapper with a scripted "
         "entropy source. c17.multi (several automatic reseeds inside ONE Read, test-level interval of 8 requests): every configuration x every wrapper "
         "constructor that exists for it (New{Hash,Hmac,Ctr}DrbgPrng, NewNist*DrbgPrng, NewGm*DrbgPrng) x strength class, after 0-7 one-request Reads: "
         "one Read through the rest of the interval + (k-1) whole intervals + r bytes, k in {0,1,2,3,5} (one block per request - GM Hash/CTR -: also 8, 17), "
         "r in {0,1,max-1,max,max+1} (r=0: the Read ends exactly where the reseed is due and must not draw entropy; the follow-up Read starts with "
         "the reseed); configurations with 2048-byte requests outside SM3/SHA-256/SHA-512/ciphers get one (k,r) diagonal; histories of 5-9 Reads that "
         "end at / start at / cross 1,2,3,5 reseed points, empty Reads at a reseed point; level two (1024 requests): GM Hash/CTR wrappers one Read "
         "across two reseed points (thorough: four 2048-byte configurations, 2 MiB per interval); two or three wrappers of different configurations "
         "over ONE entropy source read in turns to or across 1-3 reseed points each; per Read: n, nil error, bytes of the model chain, and "
         "the entropy source read exactly as often and for as many bytes as the model reads its own (cross-checked by arithmetic); entropy faults: the "
         "source fails at the j-th of the k reseeds of ONE Read ((k,j) in {(2,1),(2,2),(3,1),(3,2),(3,3),(5,4)}; 6 persistent shapes as c17.faults + 5 "
         "transient ones: one failing call, healthy afterwards): error required, at most the model's bytes counted, exactly j source reads; then the next "
         "Read fails again (persistent) or reseeds and continues exactly as the model whose generator served the requests before the failure (transient). "
         "c17.faults (fault enumeration): configuration x {5 mon.FaultKind, stream ends} x source call index 0..6 "
         "(0 entropy, 1 nonce, 2..5 reseeds, 6 control). c17.timerule (quick and thorough, avx2 only, one case): generators and reader "
         "wrappers of all 40 configurations are created, the 6 s test-level interval is slept through once, then GM generators must refuse, "
         "accept a Reseed and serve again (bytes equal to the model), NIST twins must serve, and the wrappers' Read must succeed with exactly one "
         "reseed from the scripted source (Script.MaxBytes turns an endless reseed loop into a violation). distinct = class keys (configuration | operation / size or length class / "
         "additional input / position of the reseed counter / outcome); no case is trivial",
    # first: one case, one process, one sleep of 6.3 s (the GM reseed time rule in every tier) - it overlaps with the rest
    jobs=[J("c17.timerule", configs=["avx2"], variant="asm", shards=(1, 1), floor=1)]
    + both("c17.history", _CFG + ["avx", "sse", "aesni1"], shards=(2, 8), floor=2000, env=_GC)  # SM3 AVX/SSSE3 blocks (Hash/HMAC over SM3), single-block AES-NI SM4 (CTR_DRBG)
    # the 32-bit build runs the histories at half the speed: three shards, so that it is not the tail of every quick run
    + [J("c17.history", configs=["ia32"], variant="ia32", shards=(3, 8), floor=2000, env=_GC)]
    # whole reseed intervals of levels two / one / undefined level bytes: counter logic of drbg/common.go, pure Go and the same in
    # every dispatch tier and in the purego build (64-bit build and 32-bit build: uint64 counters); thorough walks 2^20 calls per case
    + both("c17.levels", ["avx2", "ia32"], shards=(2, 8), floor=200, deadline="120s", env=_GC)
    + both("c17.reader", _CFG + ["ia32"], shards=(1, 4), floor=300, env=_GC)
    + both("c17.faults", _CFG, shards=(1, 2), floor=1000, env=_GC)
    # k reseeds inside one Read call: the loop of DrbgPrng.Read is pure Go and the same in every tier - default dispatch, purego build, 32-bit build
    + both("c17.multi", ["avx2", "purego", "ia32"], shards=(2, 4), floor=1500, env=_GC)
    + both("c17.options", ["avx2", "ia32"], shards=(1, 1), floor=80),
    exhaustive_note="c17.faults enumerates completely: 28 configurations (the three hash functions added for table 2 are left out: the wrapper's treatment of a failing source does not depend on the hash; thorough: x every strength class of the wrapper) x 6 fault shapes x every entropy-source call index of a fixed "
                    "Read script that crosses the reseed interval four times (level fault_enumeration for that workload)",
    assumptions=["harness/ref/drbg implements SP 800-90A Rev.1 Hash_DRBG/HMAC_DRBG/CTR_DRBG(df) and the GM/T 0105 variations the package "
                 "documents (validated before every run against the 53 CAVP / GM/T 0105 vectors of the package's table tests incl. every "
                 "intermediate working state, HMAC against crypto/hmac, and - for every row of SP 800-90A table 2, whose seedlen the model takes from a literal "
                 "copy of that table - 28 known answers for Hash_DRBG and HMAC_DRBG computed with OpenSSL 3.0 EVP_RAND (ref/drbg/vectors_openssl.go; the "
                 "generating program first reproduces a CAVP row))",
                 "Go standard library SHA-1/SHA-2/AES and the harness references ref/sm3, ref/sm4 are right",
                 "GM reseed time interval: decided by bracketing with the monotonic clock (refusal required if the call began more than "
                 "the interval after the last (re)seed returned, forbidden if it returned within the interval after the (re)seed began, "
                 "either answer accepted in between); a reader-wrapper case that ran longer than the interval is inconclusive",
                 "the per-request maximum is the one the package documents and announces through MaxBytesPerRequest() for all three "
                 "mechanisms (2048 bytes; one hash/cipher block for Hash and CTR in GM mode), which lies below SP 800-90A's 2^19 bits: a larger "
                 "request must be refused without touching buffer or state (when the reseed is due as well, either error is accepted)",
                 "the wrapper draws entropy lazily, as the package's Read is written: one read of strength bytes when (and only when) a chained "
                 "request is refused for want of a reseed - a Read that ends exactly where the next reseed is due, or asks for 0 bytes there, draws "
                 "nothing (c17.levels and c17.multi compare the reads of the entropy source with the model's call by call); after a failed Read "
                 "the generator has served the requests before the failure and still waits for its reseed",
                 "GM/T 0105 defines no HMAC generator: in GM mode the HMAC constructor may or may not apply the minimum entropy/nonce length "
                 "that its Reseed documents",
                 "inputs longer than the package's MAX_BYTES (2^27) but within SP 800-90A's 2^35 bits may be refused or served as specified; "
                 "a SecurityLevel byte other than the three constants must behave like one of the three defined levels",
                 "not decided: an output slice that overlaps the additional input (unspecified); hash functions outside SP 800-90A table 2 "
                 "(SHA-3) and block ciphers other than AES/SM4 (TDEA needs 168-bit keys the constructor cannot express); additional input above MAX_BYTES on Generate"],
)

CLAIM = dict(
    text="Runtime monitoring of drbg.New{Hash,Hmac,Ctr}Drbg (+NIST/GM constructors) and the DrbgPrng reader wrappers over SM3, every hash "
         "function of SP 800-90A table 2 and SM4/AES-128/192/256: every output of "
         "random operation histories that cross the reseed interval several times equals an independent SP 800-90A / GM/T 0105 state-machine "
         "model byte for byte; past the interval every Generate must return ErrReseedRequired with the marker-filled buffer unchanged and "
         "the state unchanged (the history continues against the model that did not move) - at the test level in random histories and, call by "
         "call through whole intervals, at level two (1024), level one (thorough: 2^20) and for undefined level bytes, for generators and wrappers; "
         "documented length bounds of constructors and "
         "Reseed are checked in both directions; every call gets its arguments cut from one dirty caller buffer with spare capacity in random "
         "order, must leave that buffer unchanged outside the output slice, and must not depend on it afterwards (it is inverted after every call); "
         "Read must deliver exactly the requested bytes, equal to the model chaining requests and "
         "reseeding from the scripted entropy source - also when one Read needs 2, 3, 5 (8, 17) reseeds, ends or starts exactly at a reseed point, "
         "or the source fails at a later reseed of the same Read (error; after a transient failure the next Read continues with the model) -, and must "
         "read the entropy source exactly as often as the model. Level exploration for histories and reader sizes; fault_enumeration for the entropy "
         "source failing or short at every call index (error required, no panic, persistent failure stays an error).",
    design_ref="DESIGN.md 6 (C17)",
    note="trusted: harness/ref/drbg (+ref/sm3, ref/sm4, Go stdlib hashes/AES; OpenSSL 3.0 as the source of the known answers for SHA-224, SHA-384, "
         "SHA-512/224, SHA-512/256), monotonic clock for the bracketed GM time rule; "
         "the GM time rule is observed positively by one case per run (c17.timerule, one 6.3 s sleep; thorough adds a second case per configuration)",
    technique="history monitor against a reference state machine + caller-memory snapshots + scripted entropy source with fault enumeration + panic monitor",
)
