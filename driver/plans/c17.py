# plan and claim for C17 (DRBGs); J and both are injected by driver/plan.py
_CFG = ["avx2", "noaes", "purego"]   # library SM3/SM4: AVX2+AES-NI asm, table-driven Go (cpu.aes=off), purego build

PLAN = dict(
    level="exploration",
    rule="c17.history: one case = one random walk of 12-30 operations over {Generate(n, additional?), Reseed(entropy, additional?)} "
         "on one of 28 generator configurations (Hash and HMAC over SM3/SHA-256/SHA-512/SHA-1/SHA-384, CTR over SM4/AES-128/192/256, "
         "each in NIST and GM mode) at the test level (interval 8; 1 in 12 histories at level one/two), constructor and reseed "
         "input lengths from {0,1,min-1,min,2min,200}, request sizes from {0,1,15,16,17,31,32,33,55,111,2047,2048,2049, block-1, "
         "block, block+1, 2block+1, 4096, 2049..4096, 65536(thorough)}, every output compared with harness/ref/drbg driven by the same history; "
         "plus one case per configuration with requests of max+1, 4097, 65536 and 65537 bytes (all to be refused) and (thorough) one case "
         "that sleeps through the 6 s GM reseed time interval. c17.reader: 6-14 Read calls of sizes {0,1,max-1,max,max+1,5max+3,random} on the reader wrapper with a scripted "
         "entropy source. c17.faults (fault enumeration): configuration x {5 mon.FaultKind, stream ends} x source call index 0..6 "
         "(0 entropy, 1 nonce, 2..5 reseeds, 6 control). c17.timerule (quick and thorough, avx2 only, one case): generators and reader "
         "wrappers of all 28 configurations are created, the 6 s test-level interval is slept through once, then GM generators must refuse, "
         "accept a Reseed and serve again (bytes equal to the model), NIST twins must serve, and the wrappers' Read must succeed with exactly one "
         "reseed from the scripted source (Script.MaxBytes turns an endless reseed loop into a violation). distinct = class keys (configuration | operation / size or length class / "
         "additional input / position of the reseed counter / outcome); no case is trivial",
    jobs=both("c17.history", _CFG + ["avx", "sse", "aesni1", "ia32"], shards=(2, 8), floor=2000)  # SM3 AVX/SSSE3 blocks (Hash/HMAC over SM3), single-block AES-NI SM4 (CTR_DRBG)
    + both("c17.reader", _CFG + ["ia32"], shards=(1, 4), floor=300)
    + both("c17.faults", _CFG, shards=(1, 2), floor=1000)
    # one case, one process, one sleep of 6.3 s: the GM reseed time rule in every tier
    + [J("c17.timerule", configs=["avx2"], variant="asm", shards=(1, 1), floor=1)],
    exhaustive_note="c17.faults enumerates completely: 28 configurations (thorough: x every strength class of the wrapper) x 6 fault shapes x every entropy-source call index of a fixed "
                    "Read script that crosses the reseed interval four times (level fault_enumeration for that workload)",
    assumptions=["harness/ref/drbg implements SP 800-90A Rev.1 Hash_DRBG/HMAC_DRBG/CTR_DRBG(df) and the GM/T 0105 variations the package "
                 "documents (validated before every run against the 53 CAVP / GM/T 0105 vectors of the package's table tests incl. every "
                 "intermediate working state, and HMAC against crypto/hmac)",
                 "Go standard library SHA-1/SHA-2/AES and the harness references ref/sm3, ref/sm4 are right",
                 "GM reseed time interval: decided by bracketing with the monotonic clock (refusal required if the call began more than "
                 "the interval after the last (re)seed returned, forbidden if it returned within the interval after the (re)seed began, "
                 "either answer accepted in between); a reader-wrapper case that ran longer than the interval is inconclusive",
                 "the per-request maximum is the one the package documents and announces through MaxBytesPerRequest() for all three "
                 "mechanisms (2048 bytes; one hash/cipher block for Hash and CTR in GM mode), which lies below SP 800-90A's 2^19 bits: a larger "
                 "request must be refused without touching buffer or state (when the reseed is due as well, either error is accepted)",
                 "GM/T 0105 defines no HMAC generator: in GM mode the HMAC constructor may or may not apply the minimum entropy/nonce length "
                 "that its Reseed documents"],
)

CLAIM = dict(
    text="Runtime monitoring of drbg.New{Hash,Hmac,Ctr}Drbg (+NIST/GM constructors) and the DrbgPrng reader wrappers: every output of "
         "random operation histories that cross the reseed interval several times equals an independent SP 800-90A / GM/T 0105 state-machine "
         "model byte for byte; past the interval every Generate must return ErrReseedRequired with the marker-filled buffer unchanged and "
         "the state unchanged (the history continues against the model that did not move); documented length bounds of constructors and "
         "Reseed are checked in both directions; Read must deliver exactly the requested bytes, equal to the model chaining requests and "
         "reseeding from the scripted entropy source. Level exploration for histories and reader sizes; fault_enumeration for the entropy "
         "source failing or short at every call index (error required, no panic, persistent failure stays an error).",
    design_ref="DESIGN.md 6 (C17)",
    note="trusted: harness/ref/drbg (+ref/sm3, ref/sm4, Go stdlib hashes/AES), monotonic clock for the bracketed GM time rule; "
         "the GM time rule is observed positively by one case per run (c17.timerule, one 6.3 s sleep; thorough adds a second case per configuration)",
    technique="history monitor against a reference state machine + scripted entropy source with fault enumeration + panic monitor",
)
