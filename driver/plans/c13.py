# plan and claim for C13 (no panic, hang or overrun on hostile bytes); J and both are injected by driver/plan.py
PLAN = dict(
    level="exploration",
    rule="seed artefacts of every input type are generated at workload start by the library itself from fixed keys and a "
         "PRNG keyed by VERIF_SEED; c13.sweep applies to every (entry point, seed artefact) pair of the catalogue: every "
         "truncation, the substitutions ^0x01 ^0x80 0x00 0xFF at every position, ~40 DER-aware edits at every element "
         "(length +-1, long/indefinite/huge length, tag class/constructed/high-tag flips, retagging, INTEGER sign and leading "
         "octets, delete, duplicate, swap, extra nesting, empty, grow, shrink, resize to block/point-size neighbours, with "
         "enclosing lengths recomputed, also inside PEM/base64 wrappers and encapsulating OCTET/BIT STRINGs), all empty and "
         "1-3 byte inputs of a fixed list, every other artefact unmodified (type confusion) and seeded random splices; "
         "a der-relength mutator re-encodes every primitive element of <= 200 content bytes at every content length "
         "0..min(2*len+8, 260) (quick: every length for elements <= 64 bytes, else every length in len/2..len+2, +-2 around "
         "powers of two, multiples of 8 +-1 up to 137 and a stride of 5); c13.built constructs semantically valid but "
         "mis-sized payloads with the public API; c13.modes drives AEAD Open (every length 0..200 and every cut of a genuine "
         "ciphertext) and the XTS/HCTR decrypters in every SM4 dispatch tier; c13.sweep.tiers / c13.built.tiers repeat the "
         "entry points that decrypt content with an SM4 mode in the noclmul, noaes, avx and sse tiers (thorough: aesni1 too), every constructed payload of 1..8 blocks in both guard placements; a der-oid mutator puts every value into the last two bytes of every OBJECT IDENTIFIER and replaces it by the other OIDs known to the run (seed OIDs + the library's exported ones; sampled in quick). a text-grammar mutator treats every string value (universal string and time types, GeneralName forms, the header lines of encrypted PEM blocks, the text of CFCA escrow blobs; BMPString in 2-octet units) as a little language: at EVERY position delete, cut, drop the head, insert and substitute each of 16 significant characters (quote, backslash, @ . : [ ] % / * , - space NUL LF non-ASCII; thorough 36), cut-and-end-with each of them, insert 8 significant tokens (two dots, two backslashes, backslash-quote, @@ :: :// %00 CRLF; thorough 16), double the string - enclosing DER lengths recomputed (on the entry points that feed the X.509 / CSR / CRL / PEM / escrow parsers directly; containers that embed certificates reach the same sub-parsers; not in the race variant); the seed certificates include a names PKI (root -> intermediate -> leaves) with every GeneralName form, every RFC 2821 mailbox form (quoted local parts, quoted pairs), URIs with userinfo/port/IPv6 literal/escapes, name constraints of all four handled kinds (permitted and excluded, IPv4/IPv6 masks) plus unhandled kinds, every string type, policy qualifiers, CRL/IDP/AIA forms; c13.names re-signs every DER-tree mutant (DER edits, re-lengths, text grammar; thorough: OIDs) of a leaf and of the intermediate with the issuer's key, so that Certificate.Verify gets past the signature check and runs the name-constraint and SAN sub-parsers on the hostile values (hostile leaf below the genuine CA; hostile intermediate between genuine root and leaf; the plain sweep also uses a hostile trust anchor), plus VerifyHostname with fixed and hostile host names; c13.built also constructs algebraically exceptional inputs with the harness' own arithmetic (ref/ec, ref/bn; confirmed by the reference verifier): SM2 (digest, signature) pairs with R = [s]G, r+s = n, r = e, small abscissas, [s]G+[t]P = infinity, [s]G = [t]P, structured honest nonces and range ends for nine digest forms (VerifyASN1, Verify, WithSM2 variants, key recovery, the generic verifier on P-384), SM2 ciphertexts with structured C1 (G, -G, P, x = 0/tiny/p-1, unreduced x+p, infinity encodings) and a genuine C3 in every layout, SM2 key agreement peers whose static key and ephemeral point sum to infinity or are equal (KeyExchange both roles, ecdh.SM2MQV), SM9 signatures/ciphertexts/wrapped keys/key-agreement messages with S or C1 = infinity, +-P1, +-Q, unreduced or off-curve (MAC genuine where the recipient can unwrap), SM9 master and user keys from hostile files (infinity, Ppub = -[h1]P, twist points outside the subgroup) then used. Thorough tier only: a coverage-guided fuzzing stage (Go native fuzzing, 150 000 executions per entry point from its valid artefacts) proposes failing inputs, each of which the child executes as one more case (c13.fuzzreplay). the product key kind x algorithm identifier: a PKI per key kind the parsers accept for signing (SM2, P-224, P-256, P-384, P-521, RSA 1024/2048, Ed25519: self-signed CA, a leaf whose subject key is of the next kind, request, revocation list, PKCS#7 signed data with attributes and over a caller-supplied digest) and a der-algid mutator that replaces every AlgorithmIdentifier element of every artefact by each of ~57 identifiers (smx509's signature table incl. the RSA-PSS parameter sets, pkcs7's digest and digest-encryption identifiers, key algorithm identifiers with each named curve, absent/NULL parameter variants, unknown ones) - alone (inconsistent), together with every byte-identical twin (inner and outer field of a certificate or CRL, both digest fields of a SignerInfo) and as the product digest x signature list for sibling pairs - on every entry point of the plain sweep; dedicated entry points then call every signature-checking accessor with keys of every kind (CheckSignatureFrom under each CA, CheckSignature / CheckSignatureWithDigest under the own key with digests of every size, Verify against a pool of all CAs, the hostile certificate as parent of children and CRLs of every kind, CSR CheckSignature incl. the CFCA parsers, CRL CheckSignatureFrom / CheckCRLSignature under each CA, pkcs7 Verify / VerifyWithChain / VerifyAsDigest*, cfca verifiers). A context grid (context.go) repeats the consuming entry points over values of their STRUCTURAL arguments, which select the code the hostile bytes reach, with artefacts valid in each context: SM9 Decrypt / DecryptASN1 / crypto.Decrypter / UnwrapKey (raw, DER, key package) for recipients whose identity has 5, 55, 61, 119 octets (residue classes of the KDF input within a hash block; thorough: 1, 51, 52, 55, 59, 60, 61, 63, 64, 119), genuine messages of 150 and 300 octets (KDF block-count classes 4-7 and >= 8; truncation walks every shorter length; thorough: 60/150/300 in both layouts plus SM4-CBC), caller-chosen UnwrapKey lengths 97 and 300 (thorough: 16, 33, 96, 97, 129, 300, 1000); the SM9 key exchange (both roles, hostile R and S values) for identity pairs of those lengths and key lengths 16/97/300 with the session messages of each context; SM2 decryption (all three option forms) under keys on P-224 and P-384 next to P-256/P-521/SM2 (every mutator kind on a 60-octet message) and for every curve with 150/300-octet messages (P-521: thorough); the SM2 key exchange confirmations for identity lengths (55,3) (119,61) (1,200) and key lengths 97/300/16 (thorough: eight combinations, identities up to 8191 octets); PKCS#8 decryption with passwords of 1 and 130 octets (thorough: 1, 55, 64, 65, 130, 300; four schemes), PKCS#7 / CFCA envelopes and PSK containers with 300-octet content. Context entry points take the mutator kinds whose mutants get past the point decoder (every truncation, ^0x01 at every position, DER edits and re-lengths, every other artefact unmodified - including the artefacts of the other contexts - and splices). When a library producer panics on the valid arguments of a context its artefact is replaced by a shaped one (genuine C1, lengths of the context) and noted, so that the consumers still decide. One case = (entry point, artefact, mutator, range of <= 256 positions); "
         "distinct = configuration | entry point / mutator. The hostile bytes sit in guard-page buffers (len == cap), three of "
         "four mutants against the upper page and one against the lower (thorough: every mutant in both placements).",
    # jobs start in this order on 16 workers: the long ones (pure-Go sweep, 32-bit build) first
    jobs=[J("c13.sweep", ["purego"], "purego", shards=(10, 16), floor=2000),
          # the 32-bit build runs SM9 and the legacy curves 10-20 times slower: a longer per-case limit keeps a loaded
          # machine from reporting its largest cases as inconclusive
          J("c13.built", ["ia32"], "ia32", shards=(3, 4), floor=50, deadline="90s"),
          J("c13.sweep", ["avx2"], "asm", shards=(8, 16), floor=2000),
          # authenticated hostile certificates (re-signed mutants): the string sub-parsers and the chain builder are the
          # same Go code in every build, so quick runs the assembly build only
          J("c13.names", ["avx2"], "asm", shards=(5, 8), floor=500),
          dict(J("c13.names", ["purego"], "purego", shards=(8, 8), floor=500), thorough_only=True)]
         + both("c13.built", ["avx2", "purego"], shards=(2, 4), floor=50)
         # every other SM4 mode implementation tier for the entry points that decrypt content with an SM4 mode
         + [J("c13.sweep.tiers", ["noclmul", "noaes", "avx", "sse"], "asm", shards=(2, 4), floor=500),
            J("c13.built.tiers", ["noclmul", "noaes", "avx", "sse"], "asm", shards=(1, 2), floor=20),
            dict(J("c13.sweep.tiers", ["aesni1"], "asm", shards=(4, 4), floor=500), thorough_only=True),
            dict(J("c13.built.tiers", ["aesni1"], "asm", shards=(2, 2), floor=20), thorough_only=True)]
         + both("c13.modes", ["avx2", "avx", "sse", "noclmul", "noaes", "aesni1", "purego"], shards=(1, 2), floor=80)
         + [dict(J("c13.sweep", ["avx2"], "race", shards=(8, 16), floor=2000), thorough_only=True),
            dict(J("c13.built", ["avx2"], "race", shards=(4, 4), floor=50), thorough_only=True),
            dict(J("c13.modes", ["avx2"], "race", shards=(1, 2), floor=80), thorough_only=True)],
    # thorough tier: coverage-guided fuzzing (Go native fuzzing) of every catalogued entry point from its valid artefacts,
    # a fixed number of executions per entry point; failing inputs are confirmed by the child (workload c13.fuzzreplay)
    fuzz=dict(pkg="./fuzz/c13", func="FuzzC13", execs=(0, 150000), replay_wl="c13.fuzzreplay", variant="asm", parallel=4,
              thorough_only=True, wall=1800),
    exhaustive_note="for the seed artefacts of the run, the truncation class (every proper prefix), the four single-byte "
                    "substitution classes (every position) and the DER-edit class (every element x every edit) are enumerated "
                    "completely for every catalogued (entry point, artefact) pair (context-grid entry points, marked @ in their name: truncations, ^0x01 and DER edits only); everything else is sampled",
    assumptions=["'never fails to terminate' is decided as bounded progress: every case (<= 256 calls) returns within 30 s, "
                 "re-checked alone with 120 s; inputs are at most 128 KiB and never declare a password-KDF work factor above "
                 "2048 PBKDF2/PBKDF1 iterations or scrypt N>4096, r>16, p>16 (mutants that raise a factor beyond that are "
                 "skipped and counted; mutants that lower it, to zero or below as well, are kept)",
                 "reads outside the input are observable only on the guarded side of the buffer and only when they cross "
                 "the page boundary; writes outside are observable anywhere in the guard region (canary)",
                 "documented precondition refusals of APIs without an error channel (XTS/HCTR below one block) are accepted "
                 "only with their exact message",
                 "the 32-bit build's per-case limit is 90 s instead of 30 s (SM9 and the legacy curves are 10-20 times slower there)",
                 "an SM9 user private key decoded from a form without the master public key cannot sign or run the key "
                 "exchange; since /repo 7f6d355 such uses report an error instead of dereferencing nil, and the sweep now "
                 "uses every decoded user key (Sign, MasterPublic, key exchange both roles, re-encoding)"],
)

CLAIM = dict(
    text="Runtime monitoring of ~110 exported entry points that consume external bytes (sm2, sm9, ecdh, smx509, pkcs8, pkcs7 "
         "with every accessor after Parse, cfca, padding, AEAD Open, XTS/HCTR, the BER normaliser): each is executed on every "
         "truncation, every single-byte substitution (4 values), every DER-aware edit, all tiny inputs, cross-type inputs, "
         "seeded random splices, text-grammar edits of every string value at every position, every known algorithm identifier in "
         "every algorithm field (consistently and inconsistently) of artefacts for every key kind followed by every signature check under keys of every kind, authenticated (re-signed) hostile "
         "certificates driven through chain verification and host name matching, the consuming entry points repeated over a grid of their structural arguments (SM9 recipient identity length, genuine message length, caller-chosen unwrap/key-exchange output length, SM2 key curve P-224..P-521, key-exchange identity lengths, password and content lengths) with artefacts valid in each context, constructed mis-sized payloads and "
         "algebraically exceptional values (infinity, equal/opposite points, zero denominators, unreduced coordinates) derived from valid artefacts, under recover(), "
         "SetPanicOnFault, guard-page placement of the input, a canary check and a per-case watchdog, on the assembly and the "
         "pure-Go build (thorough: also under the race detector's checkptr). Any recovered panic, fault, canary hit, process "
         "death or confirmed hang is a violation reported with the exact input and the innermost library frame. "
         "Exploration: exhaustive only over the mutation classes listed in the evidence for the generated seeds.",
    design_ref="DESIGN.md 6 (C13)",
    note="trusted: Go runtime bounds checks and fault recovery, kernel page protection, encoding/asn1 (work-factor guard), "
         "the harness DER re-serialiser (checked to reproduce every seed byte for byte before it is used), the reference "
         "arithmetic ref/ec, ref/bn, ref/sm2sig, ref/sm9 (construction of exceptional values; self-tested)",
    technique="panic/fault monitor + guard pages + watchdog over mutation-enumerated hostile inputs; thorough tier: coverage-guided fuzzing proposes inputs that the monitored child confirms",
)
