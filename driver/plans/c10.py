# plan and claim for C10 (SM9 schemes); J and both are injected by driver/plan.py
_ALL = ["avx2", "avx", "sse", "scalar", "noadx", "noaes", "purego", "ia32"]

PLAN = dict(
    level="exploration",
    rule="c10.transcript: for every uid length 0..200 (hence every residue mod 64 of the KDF input 448+len(uid)) four deterministic "
         "sessions - sign / wrap / enc / kex - with hid cycling over {1,2,3,0xFF}, structured master scalars scripted into the random "
         "stream (1, 2, N-2, 2^k, bit runs, rejected-then-retried candidates, random), message lengths 1..300, key lengths 1..300 drawn "
         "per KDF block class (1-3, 4-7, >=8 blocks), the five encryption modes in raw and ASN.1 form, key exchange with and without "
         "confirmation; every output is (a) checked by round-trip laws, (b) recomputed by the reference model (H1/H2/KDF/MAC/modes/DER/"
         "naive G1 of ref/sm9, pairing values taken from the library's bn256 through the hook) and (c) published as a SHA-256 digest that "
         "the driver compares across all seven configurations of the same case (any difference = config-mismatch). Because the outputs "
         "of all configurations are byte-identical when the digests agree, and every configuration verifies/decrypts its own artefacts, "
         "acceptance of configuration A's artefacts by configuration B is implied. The transcript ends with (i) REUSE HISTORIES on "
         "key-exchange objects (the API doc neither promises nor forbids reuse; every step recomputes its state from its arguments): "
         "initiator receives another session's well-formed response (refused) then the genuine one; one responder serving several "
         "runs / a second initiator after an abandoned run; both peers reusing; roles swapped; steps repeated after error returns; "
         "each with and without Destroy between runs and with/without confirmation - every run must equal the reference for ITS "
         "messages; (ii) one master public key / one set of EncrypterOpts objects (package-level and privately constructed) / one "
         "DecrypterOptsWithUID per user / one verifier key reused over changing uid, hid, mode, length; (iii) STRUCTURED values found by "
         "a bounded reference search with the ephemeral scalar scripted: signatures whose h has one and two leading zero bytes and "
         "whose S has a leading zero byte in x or y, C1 with a leading zero byte in x or y, run through every sign / verify / wrap / "
         "encrypt entry point (h as *big.Int, fixed-width DER) and encoding round trip. c10.keys: six key types x {raw, compressed, DER, "
         "SEQUENCE (GmSSL layout), PEM} parse back to equal, working keys. c10.sound: per round, every single-byte substitution "
         "(^01, ^80, 00, FF) and every truncation of the DER signature, h, S, the ten ciphertexts (5 modes x raw/ASN.1), wrapped keys "
         "(raw/DER) and the four key-exchange messages, identity mutants excluded, expected verdicts from the reference accept set, "
         "plus wrong uid / hid / message / key; plus, per round, UNREDUCED ALIASES of every integer and field element a verifier / decryptor "
         "decodes, on artefacts CONSTRUCTED to have them (scripted nonces tried deterministically until h < 2^256-N, S has x resp. y < 2^256-p, "
         "C1 / RA / RB have both coordinates < 2^256-p): (h', S) for h' = h+N, h+2N, h+3N, h+256N, h+N*2^256, h+2^256, the edges 0, N, N+1, 2N, "
         "2^256-1, 2^256, negative values and h in other widths, through Verify(h *big.Int, S) and - as minimal, 32-byte and zero-extended "
         "OCTET STRING - through VerifyASN1 and pub.Verify; S, the wrapped-key point (65-byte, 64-byte, DER form), C1 of ciphertexts in the "
         "five modes raw / ASN.1, RA (RespondKeyExchange) and RB (ConfirmResponder, then the honest run on the same objects) spelled x+p, y+p, "
         "both; EnType of SM9Cipher spelled m+256, m+2^16, m+2^32, m-256, m-2^32, m+2^63, m+2^64 and with leading zero octets; verdicts from "
         "the reference's strict accept set (value in range, canonical point, reference verification; a ciphertext candidate is refused or - "
         "counted - opens to the same plaintext), honest artefacts accepted before and after. A case is distinct by its class key (configuration | kind / uid mod 64 / hid / KDF "
         "block class / mode / encoding / artefact chunk). "
         "c10.reuse (input-buffer independence and object histories of EVERY operation on long-lived key objects): the caller keeps uid, "
         "message, signature / ciphertext / received protocol message in ONE arena (fields at fixed offsets, every argument a sub-slice "
         "whose dirty spare capacity runs on into the caller's other data), overwrites the fields in place between calls and overwrites "
         "every slice a call returned (and every Bytes()/MarshalASN1 output of the key objects) before the next call; the whole arena is "
         "compared with its state before each call (no write inside or behind an argument); ONE master key / verifier / sender object and "
         "ONE key object per user serve the whole history, built in every way the API offers (generated, Public(), parsed from raw / DER / "
         "compressed bytes held in the arena and overwritten after the parse, MasterPublic() of a user key, master keys re-parsed from DER); "
         "identities (and signed messages) come from pools related in every way a cache key can get wrong - same length other content, same "
         "but one bit, proper prefix longer / shorter than the predecessor in the same buffer (now and then the empty uid), same uid under "
         "another hid - and every history walks an Eulerian circuit through ALL ordered pairs (previous, next) of the pool. bufsign: user "
         "keys through the reused uid buffer (twice, = [t2]P1 with the reference H1, Equal true / false), signatures by three entry points "
         "over messages in the arena (made-for established by the reference verifier), then 61 verifications by three entry points in which "
         "(claimed uid+hid, signature, message) are replaced one field at a time in all six orders: accepted exactly when all three belong "
         "to one identity. bufenc: wrap (three APIs) / encrypt (five modes, three entry points, nil / private / package-level option objects) "
         "for the identity just written over the previous one - the result must be the reference's for THAT identity (KDF(C||e(C,de)||ID), "
         "reference decryption) - opened from the arena by that identity's key object (six decrypt entry points, ONE DecrypterOptsWithUID "
         "object), a second message of the same length through the same message and ciphertext buffers, the key object's previous ciphertext "
         "written over the current one, and refused by the previous identity's key object after the uid buffer went back. bufkex: twelve "
         "sequential key exchanges (all ordered pairs of four identities) on long-lived user keys, with and without confirmation / Destroy, "
         "with the full arena discipline at every step because the exchange object outlives its calls: the uid buffers given to "
         "NewKeyExchange are overwritten as soon as the constructor returned and after every step, each party reads every received message "
         "into its ONE receive buffer (the responder SA over RA, the initiator RB||SB) which is overwritten again after the step, every "
         "returned slice (RA, RB, SB, SA, keys) is overwritten before the next step of either party; every session must complete, both "
         "confirmations accepted, with the reference key, SB and SA for ITS identities and messages (no tolerance). (The block-mode option "
         "objects append the padding in the caller's spare capacity behind the plaintext; no property demands otherwise: a precise matcher "
         "COUNTS this as an observed_* event, any other write into the arena is a violation.) options (rarely used API found with "
         "tools/cover.py): master scalars "
         "scripted to N - H1(ID||hid), the one identity per master key without a user key - GenerateUserKey refuses it twice (both key types) "
         "and goes on serving other identities, signatures do not verify under it (its public key is the point at infinity); option objects "
         "built with the public constructors for AES-128/192/256 (crypto/aes) and SM4 x PKCS#7 / ANSI X9.23 / ISO 9797-1 M2 padding x four "
         "block modes against a reference of ref KDF / MAC + crypto/cipher + ref/pad and back through the raw decrypt entry points, one altered "
         "bit refused; EncryptPrivateKey.Decrypt option values as its doc comment states them (DecrypterOptsWithUID with / without "
         "EncrypterOpts on ASN.1 and raw ciphertexts, other option types refused, nil / empty uid through the exported struct).",
    jobs=both("c10.transcript", _ALL, shards=(3, 9), floor=600)
         + both("c10.keys", ["avx2", "avx", "noadx", "purego", "ia32"], shards=(1, 4), floor=36)
         + both("c10.sound", ["avx2", "purego"], shards=(4, 16), floor=100)
         + both("c10.reuse", ["avx2", "sse", "purego", "ia32"], shards=(2, 8), floor=50),
    assumptions=[
        "reference H1/H2/KDF/MAC/mode/DER/G1 code in harness/ref/sm9 is right (self-validated against the GM/T 0044.5 annex A-D values "
        "carried by the repository tests, CBC/CFB/OFB against crypto/cipher over the reference SM4)",
        "pairing and G2/GT arithmetic used by the model come from the library's own bn256 package through the verif hook (decided by "
        "C09); what is independent here is everything hashed, derived, encoded or compared around those values",
        "the key-exchange model needs the initiator's rA: it is recovered from the read log of the scripted source and validated by "
        "RA = [rA]QB with the reference G1; if the library ever draws rA differently the model check is skipped and counted",
    ],
)

CLAIM = dict(
    text="Runtime monitoring of github.com/emmansun/gmsm/sm9 with all randomness scripted: every uid length 0..200, all four hid values, "
         "message and key lengths over every KDF block class, five encryption modes in both encodings and the key exchange are executed "
         "in seven dispatch configurations (AVX2, AVX, SSE, scalar, no-ADX, no-AES, pure Go); outputs are checked by round-trip laws, by a "
         "reference model of everything around the pairing (so a self-consistent but wrong KDF/hash is caught inside one build) and by "
         "byte-exact cross-configuration digests; every single-byte substitution and truncation of signatures, ciphertexts, wrapped keys "
         "and key-exchange messages of the sampled rounds is refused (or decrypts to the same plaintext), and so is every unreduced alias "
         "(h + kN, coordinates + p, range edges) of the integers and points in signatures, wrapped keys, ciphertexts and key-exchange messages "
         "that are constructed to have such aliases; all key encodings parse back. "
         "Input-buffer independence and object histories (c10.reuse, configurations AVX2, SSE, pure Go, 32-bit): user key generation, "
         "signing, verification, wrap / unwrap, encrypt / decrypt in all modes and encodings and sequential key exchanges run on long-lived "
         "key objects (generated, parsed, derived) with every argument held in one reused arena that is overwritten in place between calls "
         "and every returned slice overwritten, over all ordered pairs of related identities (same length, one bit apart, prefixes, same uid "
         "under another hid): each step is decided by ground truth - a signature verifies only under the identity and message it was made "
         "for, a ciphertext / wrapped key is the reference's for the identity named in THIS call and opens only with that identity's key, "
         "each exchange gives the reference key for its own identities - and the library never writes into the caller's memory; plus the "
         "identity without a user key (t1 = 0), option objects for other ciphers / key sizes / paddings and the documented option values of "
         "EncryptPrivateKey.Decrypt. Exploration: held on the cases listed, not proven.",
    design_ref="DESIGN.md 6 (C10)",
    note="trusted: harness/ref/sm9 (+ref/sm3, ref/sm4), Go standard library, the library's bn256 pairing/G2/GT arithmetic as used by the "
         "model (property C09); no independent pairing implementation",
    technique="scripted-randomness transcript + differential reference model + cross-configuration digests + exhaustive single-byte mutation sweep "
              "+ reused-arena / long-lived-object histories decided by ground truth",
)
