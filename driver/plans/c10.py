# plan and claim for C10 (SM9 schemes); J and both are injected by driver/plan.py
_ALL = ["avx2", "avx", "sse", "scalar", "noadx", "noaes", "purego", "ia32"]

PLAN = dict(
    level="exploration",
    rule="c10.transcript: for every uid length 0..200 (hence every residue mod 64 of the KDF input 448+len(uid)) four deterministic "
         "sessions - sign / wrap / enc / kex - with hid cycling over {1,2,3,0xFF}, structured master scalars scripted into the random "
         "stream (1, 2, N-2, 2^k, bit runs, rejected-then-retried candidates, random), message lengths 1..300, key lengths 1..300 drawn "
         "per KDF block class (1-3, 4-7, >=8 blocks), the five encryption modes in raw and ASN.1 form, key exchange with and without "
         "confirmation; every output is (a) checked by round-trip laws, (b) recomputed by the reference model (H1/H2/KDF/MAC/modes/DER/"
         "naive G1 of ref/sm9, pairing values taken from the library's bn256 through the hook) and (c) published as a SHA-256 digest that "
         "the driver compares across all seven configurations of the same case (any difference = config-mismatch). Because the outputs "
         "of all configurations are byte-identical when the digests agree, and every configuration verifies/decrypts its own artefacts, "
         "acceptance of configuration A's artefacts by configuration B is implied. The transcript ends with (i) REUSE HISTORIES on "
         "key-exchange objects (the API doc neither promises nor forbids reuse; every step recomputes its state from its arguments): "
         "initiator receives another session's well-formed response (refused) then the genuine one; one responder serving several "
         "runs / a second initiator after an abandoned run; both peers reusing; roles swapped; steps repeated after error returns; "
         "each with and without Destroy between runs and with/without confirmation - every run must equal the reference for ITS "
         "messages; (ii) one master public key / one set of EncrypterOpts objects (package-level and privately constructed) / one "
         "DecrypterOptsWithUID per user / one verifier key reused over changing uid, hid, mode, length; (iii) STRUCTURED values found by "
         "a bounded reference search with the ephemeral scalar scripted: signatures whose h has one and two leading zero bytes and "
         "whose S has a leading zero byte in x or y, C1 with a leading zero byte in x or y, run through every sign / verify / wrap / "
         "encrypt entry point (h as *big.Int, fixed-width DER) and encoding round trip. c10.keys: six key types x {raw, compressed, DER, "
         "SEQUENCE (GmSSL layout), PEM} parse back to equal, working keys. c10.sound: per round, every single-byte substitution "
         "(^01, ^80, 00, FF) and every truncation of the DER signature, h, S, the ten ciphertexts (5 modes x raw/ASN.1), wrapped keys "
         "(raw/DER) and the four key-exchange messages, identity mutants excluded, expected verdicts from the reference accept set, "
         "plus wrong uid / hid / message / key. A case is distinct by its class key (configuration | kind / uid mod 64 / hid / KDF "
         "block class / mode / encoding / artefact chunk).",
    jobs=both("c10.transcript", _ALL, shards=(3, 9), floor=600)
         + both("c10.keys", ["avx2", "avx", "noadx", "purego", "ia32"], shards=(1, 4), floor=36)
         + both("c10.sound", ["avx2", "purego"], shards=(4, 16), floor=100),
    assumptions=[
        "reference H1/H2/KDF/MAC/mode/DER/G1 code in harness/ref/sm9 is right (self-validated against the GM/T 0044.5 annex A-D values "
        "carried by the repository tests, CBC/CFB/OFB against crypto/cipher over the reference SM4)",
        "pairing and G2/GT arithmetic used by the model come from the library's own bn256 package through the verif hook (decided by "
        "C09); what is independent here is everything hashed, derived, encoded or compared around those values",
        "the key-exchange model needs the initiator's rA: it is recovered from the read log of the scripted source and validated by "
        "RA = [rA]QB with the reference G1; if the library ever draws rA differently the model check is skipped and counted",
    ],
)

CLAIM = dict(
    text="Runtime monitoring of github.com/emmansun/gmsm/sm9 with all randomness scripted: every uid length 0..200, all four hid values, "
         "message and key lengths over every KDF block class, five encryption modes in both encodings and the key exchange are executed "
         "in seven dispatch configurations (AVX2, AVX, SSE, scalar, no-ADX, no-AES, pure Go); outputs are checked by round-trip laws, by a "
         "reference model of everything around the pairing (so a self-consistent but wrong KDF/hash is caught inside one build) and by "
         "byte-exact cross-configuration digests; every single-byte substitution and truncation of signatures, ciphertexts, wrapped keys "
         "and key-exchange messages of the sampled rounds is refused (or decrypts to the same plaintext); all key encodings parse back. "
         "Exploration: held on the cases listed, not proven.",
    design_ref="DESIGN.md 6 (C10)",
    note="trusted: harness/ref/sm9 (+ref/sm3, ref/sm4), Go standard library, the library's bn256 pairing/G2/GT arithmetic as used by the "
         "model (property C09); no independent pairing implementation",
    technique="scripted-randomness transcript + differential reference model + cross-configuration digests + exhaustive single-byte mutation sweep",
)
