# plan and claim for C11 (ZUC stream cipher and MACs); J and both are injected by driver/plan.py
_CFG = ["avx2", "sse", "noclmul", "noclmul-sse", "noaes", "purego", "ia32"]

PLAN = dict(
    level="exploration",
    rule="EEA: c11.eea.walk = seeded random histories of 1-40 operations over {XORKeyStream(len), XORKeyStreamAt(dst, src, off)} on ONE "
         "cipher object (NewCipher / NewCipherWithBucketSize / NewEEACipher / NewEEACipherWithBucketSize, ZUC-128 and ZUC-256 with the "
         "23-byte IV, bucket arguments 0,1,127,128,129,256,1000); lengths from L(128) u L(4) u {0} and up to 8 KiB; offsets equal, inside "
         "the unread part of the round, forwards, backwards, 0, bucket and round boundaries +-1, revisits, far (<= 64 KiB); dst/src in "
         "guard-page buffers in both placements, in place, and dst longer than src. The sequential model keeps (position, bucket size); a "
         "positioned call moves the sequential position to off+len (seek documentation and TestIssue284). c11.eea.grid = for 11 fixed objects "
         "and every sequential position a in 0..300 (thorough 0..1100): rewind, advance to a, positioned call to each of 21 targets around a, "
         "the round and the bucket boundaries, then a sequential call. Every operation's output is compared with input XOR reference "
         "keystream at the absolute positions. EIA: c11.eia.bits = every bit length 0..700 (thorough 0..2100) x {NewHash, NewEIAHash, "
         "NewHash256 with 4/8/16-byte tags} x 4 message kinds (unused bits of the last byte and trailing bytes filled with junk) through "
         "Finish on a fresh object, then the object is reused (Finish / Write+Sum / Write+Finish) and must behave as new; c11.eia.bytes = "
         "byte lengths 0..200 (600) x 5 Write partitions, Sum twice, continue, Sum, Reset, reuse; c11.eia.hist = random histories over "
         "Write/Sum/Finish/Reset against the model 'bytes absorbed since the last Finish/Reset'. Every tag is compared with the bit-by-bit "
         "reference. Refused calls: a call the object refuses by its argument check is no transition of the model, the documented panic is "
         "recovered and not judged, a call that is NOT refused is a violation, and the history goes on against the model that did not move: "
         "Finish(p, nbits) with len(p) < ceil(nbits/8) (exactly the whole bytes, one byte less, empty, nil, half; on a fresh object before the "
         "real Finish for every bit length of c11.eia.bits, on the reused object, as a step of c11.eia.hist) for the five MAC kinds; "
         "XORKeyStream / XORKeyStreamAt with len(dst) < len(src) in disjoint buffers (a step of c11.eea.walk with probability 1/12; in "
         "c11.eea.grid after the positioned call of every 4th target). After a refused XORKeyStream the position must be unchanged; after a "
         "refused XORKeyStreamAt(off) the property fixes no position and the model keeps the accept-set {old position, off}, resolved by the "
         "next sequential call (events refused_at_position_moved/_kept), the keystream content being checked at the resolved position. "
         "c11.mixed = 800 (thorough 16000) cases that each create, in ONE process and in a drawn order, one object of each of the 11 kinds "
         "(NewCipher 16/16, NewCipher 32/23, NewEEACipher, each plain and ...WithBucketSize incl. a negative size; NewHash, NewEIAHash, "
         "NewHash256 with 4/8/16-byte tags), half of them under key material shared across kinds, using new and older objects in between; "
         "then 4-19 drawn steps (use of a drawn object, refused call, constructor with wrong key/IV/tag size which must return an error "
         "and change nothing, twin A' built from the parameters of a live object A and both used), then a closing examination of every "
         "object (cipher: re-read from offset 0..3 and go on; MAC: Sum and Finish) and twins of the oldest objects; every single use is judged "
         "by the per-object model against the reference, so state that one kind or parameter choice leaves in the package for another shows "
         "at the next use. distinct = distinct class keys (configuration | family / bucket / operation / position mod 128 class / length class / "
         "seek class with first-or-repeated landing in a checkpoint bucket; MAC algorithm / block count class / bit length mod 128 / "
         "message kind; partition style; history operation with buffered byte count; refused call kind / shortfall / position class; "
         "mixed: kind created after kind, kind used while kind was created last, twin of an object used 0..3+ times, refused constructor "
         "with its sizes)",
    jobs=both("c11.eea.walk", _CFG, shards=(6, 16), floor=1000)
    + both("c11.eea.grid", _CFG, shards=(2, 8), floor=1000)
    + both("c11.eia.bits", _CFG, shards=(2, 8), floor=5000)
    + both("c11.eia.bytes", _CFG, shards=(2, 8), floor=1000)
    + both("c11.eia.hist", _CFG, shards=(2, 8), floor=1000)
    + both("c11.mixed", _CFG, shards=(2, 8), floor=500)
    # thorough only: the assembly-backed histories once more under -race (implies checkptr)
    + [dict(J("c11.eea.walk", ["avx2", "sse"], "race", shards=(1, 8)), thorough_only=True),
       dict(J("c11.eia.hist", ["avx2", "sse"], "race", shards=(1, 4)), thorough_only=True)],
    assumptions=[
        "harness/ref/zuc (ZUC-128, ZUC-256, 128-EEA3, 128-EIA3, ZUC-256 MAC bit by bit) is right: validated at start-up against the "
        "specification keystream vectors (ZUC-128 sets 1-4 incl. word 2000, ZUC-256 all-zero/all-one), the 3GPP EEA3/EIA3 "
        "implementors' test data and the 12 ZUC-256 MAC examples, with every S-box entry exercised by those vectors",
        "the ZUC-256 IV form is the 23-byte packed one (the only one the constructors accept; a 25-byte IV is refused but that refusal "
        "is not judged); BEARER < 32 and DIRECTION < 2",
        "refused calls are recognised by the recovered panic (Finish, XOR calls) or the error (constructors) of the pinned tree; negative "
        "nbits, overlapping-inexact buffers and offsets above 64 KiB are not issued",
        "open finding zuc256-tail-window is excused only when the input is in its class AND the tag equals the model of the "
        "mis-indexed tail window run on the reference keystream; the model is itself checked at start-up against the tags pinned "
        "by TestEIA256_Finish and against the specification outside the class",
    ],
)

CLAIM = dict(
    text="Runtime monitoring of zuc.NewCipher*/NewEEACipher* and zuc.NewHash/NewEIAHash/NewHash256 on the AES-NI+AVX, AES-NI+SSE, "
         "no-CLMUL, no-AES-NI and purego tiers: random and systematic call histories on one seekable cipher object are compared, "
         "operation by operation, with the standard keystream at the absolute positions given by a sequential model; 128-EIA3 and the "
         "ZUC-256 MAC (32/64/128-bit tags) are compared with a bit-by-bit reference for every bit length 0..700 and for byte messages "
         "under every Write partition style, including Sum non-destructiveness and reuse after Finish/Reset; all buffers handed to the "
         "assembly sit against guard pages in both placements. Calls refused by an argument check (Finish with a buffer shorter than nbits, "
         "XOR calls with dst shorter than src, constructors with wrong key/IV/tag sizes) are issued inside the histories and must leave the "
         "object and every other object as they were (after a refused XORKeyStreamAt either the old position or the offset is accepted); "
         "c11.mixed creates and uses every cipher and MAC kind of the package interleaved in one process in drawn orders, with twins of live "
         "objects, so that package-level state left by one kind or parameter choice for another is observed. Exploration: held on the cases executed, except the open finding "
         "zuc256-tail-window (ZUC-256 MAC with 64/128-bit tags, bit length mod 128 in 33..64 / 33..127), which is re-observed and "
         "matched exactly by its bug model.",
    design_ref="DESIGN.md 6 (C11)",
    note="trusted: harness/ref/zuc (validated against published vectors incl. S-box coverage), Go runtime, kernel page protection; "
         "keys/IVs are sampled; offsets above 64 KiB and single calls above 8 KiB are not exercised",
    technique="history monitor with sequential model (incl. refused calls and cross-kind object interleaving in one process) + "
              "differential bitwise reference + guard pages + bug-model matcher",
)
