#!/usr/bin/env python3
"""Driver of the runtime-monitoring harness:  ./check <Cxx> <quick|thorough>  |  ./check --replay <file>

Builds the child binary from /repo's current working tree (through the replace
directive of harness/go.mod), runs one child process per (variant, dispatch
configuration, workload, shard), attributes crashes through the current-case slot,
confirms hang suspects, compares cross-configuration digests, matches known
findings, writes evidence/<id>.json and prints VIOLATION / KNOWN-FINDING lines.
Exit 0 = held on everything explored, 1 = violation, 2 = harness failure."""
import concurrent.futures as cf
import glob
import json
import os
import re
import shutil
import subprocess
import sys
import time

HERE = os.path.dirname(os.path.abspath(__file__))
ROOT = os.path.dirname(HERE)
sys.path.insert(0, HERE)
from plan import PLAN, VARIANTS, CONFIGS, VARIANT_ENV, BROKEN  # noqa: E402

HARNESS = os.path.join(ROOT, "harness")
BIN = os.path.join(ROOT, "bin")
RUN = os.path.join(ROOT, "run")
EVID = os.path.join(ROOT, "evidence")
REPO = os.environ.get("VERIF_REPO", "/repo")
ALT = REPO != "/repo"          # scratch copy of the repository (mutation self-tests); never used by registered commands
if ALT:
    import hashlib
    _tag = hashlib.sha1(os.path.abspath(REPO).encode()).hexdigest()[:8]
    BIN = os.path.join(ROOT, "bin", "alt-" + _tag)
    RUN = os.path.join(ROOT, "run", "alt-" + _tag)
    EVID = os.path.join(RUN, "evidence")
COVER = os.environ.get("VERIF_COVER") == "1"   # development tool (tools/cover.py): library block coverage of a check's workloads
if COVER:
    BIN = os.path.join(BIN, "cover")
    RUN = os.path.join(RUN, "cover")
    EVID = os.path.join(RUN, "evidence")
COVDIR = os.path.join(RUN, "covdata")
NCPU = os.cpu_count() or 4


def goenv():
    e = dict(os.environ)
    e.update(GOFLAGS="-mod=mod", GOPROXY="off", GOSUMDB="off", GOTOOLCHAIN="local", CGO_ENABLED=e.get("CGO_ENABLED", "1"))
    return e


def log(*a):
    print(*a, file=sys.stderr, flush=True)


import threading  # noqa: E402
_modlock = threading.Lock()


def child_path(prop, variant):
    return os.path.join(BIN, "vchild-%s-%s" % (prop.lower(), variant))


def build(prop, variant):
    """rebuild the child of a property for a variant from the repository's current tree; returns path."""
    os.makedirs(BIN, exist_ok=True)
    modflag = []
    if ALT:
        mod = os.path.join(BIN, "go.mod")
        with _modlock:
            # written once per process: a second build thread must not rewrite it while the first go build reads it
            txt = open(os.path.join(HARNESS, "go.mod")).read().replace("=> /repo", "=> " + os.path.abspath(REPO))
            if not os.path.exists(mod) or open(mod).read() != txt:
                with open(mod + ".new", "w") as f:
                    f.write(txt)
                os.replace(mod + ".new", mod)
            sumsrc, sumdst = os.path.join(REPO, "go.sum"), os.path.join(BIN, "go.sum")
            if not os.path.exists(sumdst) or open(sumsrc).read() != open(sumdst).read():
                shutil.copyfile(sumsrc, sumdst)
        modflag = ["-modfile=" + mod]
    else:
        try:
            src, dst = os.path.join(REPO, "go.sum"), os.path.join(HARNESS, "go.sum")
            if open(src).read() != open(dst).read():
                shutil.copyfile(src, dst)
        except OSError:
            pass
    out = child_path(prop, variant)
    tmp = out + ".%d" % os.getpid()
    cmd = ["go", "build"] + modflag + VARIANTS[variant] + (["-cover", "-coverpkg=github.com/emmansun/gmsm/...,verifh/cmd/..."] if COVER else []) + ["-o", tmp, "./cmd/vc/" + prop.lower()]
    t0 = time.time()
    benv = goenv()
    benv.update(VARIANT_ENV.get(variant, {}))
    p = subprocess.run(cmd, cwd=HARNESS, env=benv, stdout=subprocess.PIPE, stderr=subprocess.STDOUT, text=True)
    if p.returncode != 0:
        log("BUILD FAILED (%s):\n%s" % (variant, p.stdout[-6000:]))
        return None
    os.replace(tmp, out)
    log("built %s in %.1fs" % (variant, time.time() - t0))
    return out


def child_env(config, extra):
    e = dict(os.environ)
    gd = []
    for src in (CONFIGS.get(config, {}), extra or {}):
        for k, v in src.items():
            if k == "GODEBUG":
                gd.append(v)
            else:
                e[k] = v
    if gd:
        e["GODEBUG"] = ",".join(gd)
    else:
        e.pop("GODEBUG", None)
    return e


def read_journal(path):
    recs = []
    try:
        with open(path, "r", errors="replace") as f:
            for line in f:
                line = line.strip()
                if not line:
                    continue
                try:
                    recs.append(json.loads(line))
                except ValueError:
                    recs.append({"t": "garbled", "raw": line[:200]})
    except OSError:
        pass
    return recs


def read_cur(path):
    try:
        with open(path, "rb") as f:
            b = f.read()[8:]
        b = b.split(b"\0", 1)[0].decode("utf-8", "replace")
        if not b:
            return None, ""
        n, _, desc = b.partition("\n")
        return int(n), desc
    except (OSError, ValueError):
        return None, ""


class Job:
    def __init__(self, prop, line, config, shard, shards, tier, seed, rundir):
        self.prop, self.wl, self.config, self.variant = prop, line["wl"], config, line["variant"]
        self.shard, self.shards, self.tier, self.seed = shard, shards, tier, seed
        self.extra_env = line.get("env") or {}
        self.deadline = line.get("deadline")
        self.procs = line.get("procs")
        self.fuzz_note = line.get("fuzz_note")
        self.name = "%s.%s.%s.%d" % (self.wl, self.variant, config, shard) + (("." + line["tag"]) if line.get("tag") else "") + (
            (".p%s" % line["procs"]) if line.get("procs") else "")   # jobs that differ in GOMAXPROCS only must not share journal and slot
        self.journal = os.path.join(rundir, self.name + ".jsonl")
        self.cur = os.path.join(rundir, self.name + ".cur")
        self.stderr = os.path.join(rundir, self.name + ".stderr")
        self.racelog = os.path.join(rundir, self.name + ".race")
        self.crashes = []      # list of dict(n, desc, rc, tail)
        self.hangs = []        # confirmed hangs
        self.incon = []        # inconclusive notes
        self.harness_errors = []
        self.wall = 0.0

    def argv(self, only=None, after=0, deadline=None):
        a = [child_path(self.prop, self.variant), "-workload", self.wl, "-seed", str(self.seed), "-tier", self.tier,
             "-shard", str(self.shard), "-shards", str(self.shards), "-journal", self.journal, "-cur", self.cur,
             "-config", self.config, "-variant", self.variant]
        if only is not None:
            a += ["-only", str(only)]
        if after:
            a += ["-resume-after", str(after)]
        dl = deadline or self.deadline
        if dl:
            a += ["-case-deadline", dl]
        return a

    def env(self):
        e = child_env(self.config, self.extra_env)
        if self.variant.startswith("race"):
            e["GORACE"] = "halt_on_error=0 exitcode=0 log_path=%s" % self.racelog
        if self.procs:
            e["GOMAXPROCS"] = str(self.procs)
        if COVER:
            os.makedirs(os.path.join(COVDIR, self.prop), exist_ok=True)
            e["GOCOVERDIR"] = os.path.join(COVDIR, self.prop)
        return e


def run_child(job, argv, wall_limit):
    with open(job.stderr, "ab") as errf:
        try:
            p = subprocess.run(argv, env=job.env(), stdout=errf, stderr=errf, timeout=wall_limit, cwd=ROOT)
            return p.returncode
        except subprocess.TimeoutExpired:
            return "timeout"


HANG_CPU = float(os.environ.get("VERIF_HANG_CPU", "120"))      # seconds of processor time a single case may consume
HANG_BLOCKED = float(os.environ.get("VERIF_HANG_BLOCKED", "90"))  # seconds all threads may sleep without consuming any
HANG_WALL = float(os.environ.get("VERIF_HANG_WALL", "2400"))     # then: inconclusive (starved), never a violation


def _proc_cpu_and_states(pid):
    """(processor seconds consumed by the process, set of thread states) from /proc; (None, None) when it is gone."""
    try:
        f = open("/proc/%d/stat" % pid).read()
        rest = f[f.rindex(")") + 2:].split()
        cpu = (int(rest[11]) + int(rest[12])) / float(os.sysconf("SC_CLK_TCK"))
        states = set()
        for t in os.listdir("/proc/%d/task" % pid):
            try:
                g = open("/proc/%d/task/%s/stat" % (pid, t)).read()
                states.add(g[g.rindex(")") + 2:].split()[0])
            except (OSError, ValueError):
                pass
        return cpu, states
    except (OSError, ValueError):
        return None, None


def confirm_hang(job, n):
    """Re-executes case n alone. Returns "returned", "hang: ..." or a reason why no verdict could be taken.
    hang  <=>  the case consumed HANG_CPU seconds of processor time without returning (typical cases need micro- to
    milliseconds, the slowest 32-bit ones a few seconds), or every thread of the process slept for HANG_BLOCKED
    seconds in a row while the process consumed no processor time (blocked for ever). A process that is merely not
    scheduled (runnable threads, little processor time) is neither: after HANG_WALL seconds the case is inconclusive."""
    with open(job.stderr, "ab") as errf:
        p = subprocess.Popen(job.argv(only=n, deadline="4h"), env=job.env(), stdout=errf, stderr=errf, cwd=ROOT)
    t0 = time.time()
    last_cpu, idle_since = 0.0, None
    verdict = None
    while True:
        try:
            p.wait(timeout=1.0)
            return "returned"
        except subprocess.TimeoutExpired:
            pass
        cpu, states = _proc_cpu_and_states(p.pid)
        now = time.time()
        if cpu is None:
            continue
        if cpu >= HANG_CPU:
            verdict = "hang: no return after %.0f s of processor time (%.0f s wall) when re-run alone" % (cpu, now - t0)
            break
        if cpu - last_cpu < 0.02 and states and states <= {"S"}:
            idle_since = idle_since or now
            if now - idle_since >= HANG_BLOCKED:
                verdict = "hang: every thread blocked for %.0f s without consuming processor time when re-run alone" % (now - idle_since)
                break
        else:
            idle_since = None
        last_cpu = cpu
        if now - t0 >= HANG_WALL:
            verdict = "starved: %.1f s of processor time in %.0f s wall, still running" % (cpu, now - t0)
            break
    p.kill()
    p.wait()
    return verdict


def tail(path, n=4000):
    try:
        with open(path, "rb") as f:
            f.seek(0, 2)
            size = f.tell()
            f.seek(max(0, size - n))
            return f.read().decode("utf-8", "replace")
    except OSError:
        return ""


def run_job(job, wall_limit):
    t0 = time.time()
    after = 0
    for attempt in range(25):
        try:
            os.remove(job.cur)
        except OSError:
            pass
        ndone = sum(1 for r in read_journal(job.journal) if r.get("t") == "done")
        rc = run_child(job, job.argv(after=after), wall_limit)
        recs = read_journal(job.journal)
        done = [r for r in recs if r.get("t") == "done"]
        if rc == 0 and len(done) > ndone:
            break
        if rc == "timeout":
            job.incon.append("driver wall-clock guard (%ds) fired; job not finished" % wall_limit)
            break
        if rc == 4:
            job.harness_errors += [r.get("msg", "?") for r in recs if r.get("t") == "harness_error"] or ["exit 4"]
            break
        if rc == 5:
            job.harness_errors.append("child usage error: " + tail(job.stderr, 500))
            break
        if rc == 3:
            hs = [r for r in recs if r.get("t") == "hang-suspect"]
            n = hs[-1]["n"] if hs else None
            if n is None:
                job.harness_errors.append("exit 3 without hang-suspect record")
                break
            # confirm alone (bounded progress, DESIGN 3.6). The verdict is taken on the processor time the case consumed,
            # not on wall-clock time: on a loaded machine a starved process is not a hung one.
            how = confirm_hang(job, n)
            if how.startswith("hang"):
                job.hangs.append(dict(n=n, desc=hs[-1].get("desc", ""), stacks=hs[-1].get("stacks", "")[:4000], how=how))
                # one confirmed hang is a verdict for the job; a tree on which every case of the job hangs must not
                # cost a confirmation per case
                job.incon.append("job stopped after the confirmed hang of case %d; later cases of this shard were not executed" % n)
                break
            elif how == "returned":
                job.incon.append("case %d exceeded the per-case deadline under load but returned when re-run alone" % n)
            else:
                job.incon.append("case %d exceeded the per-case deadline and its solitary re-run was inconclusive: %s" % (n, how))
            after = n
            continue
        # any other exit: crash (fatal error, signal, os.Exit from library code)
        n, desc = read_cur(job.cur)
        hello = [r for r in recs if r.get("t") == "hello"]
        if n is None:
            if not hello or attempt == 0:
                st = tail(job.stderr)
                if "github.com/emmansun/gmsm" in st and len(hello) <= attempt:
                    job.crashes.append(dict(n=0, desc="process died before the first case (package initialisation?)", rc=rc, tail=st))
                else:
                    job.harness_errors.append("child died (rc=%s) before any case: %s" % (rc, st[-1500:]))
                break
            job.harness_errors.append("child died (rc=%s) with empty current-case slot" % rc)
            break
        st = tail(job.stderr, 12000)
        if harness_panic(st):
            job.harness_errors.append("harness code panicked at case %s (%s): %s" % (n, desc[:200], st[-1500:]))
            break
        job.crashes.append(dict(n=n, desc=desc, rc=rc, tail=st[-4000:]))
        after = n
    job.wall = time.time() - t0
    return job


def harness_panic(st):
    """a Go panic (not a runtime fatal error) whose panicking goroutine has no library
    frame is a defect of the harness, not a verdict."""
    i = st.rfind("\npanic: ")
    if i < 0 and not st.startswith("panic: "):
        return False
    blk = st[max(i, 0):]
    g = blk.split("\n\ngoroutine ")
    first = g[1] if len(g) > 1 else blk
    return "github.com/emmansun/gmsm" not in first


RACE_HDR = "WARNING: DATA RACE"


def race_reports(job):
    """parse race detector logs of a job; returns list of report texts."""
    out = []
    for p in glob.glob(job.racelog + ".*"):
        try:
            txt = open(p, errors="replace").read()
        except OSError:
            continue
        parts = txt.split(RACE_HDR)
        for blk in parts[1:]:
            out.append(RACE_HDR + blk.split("==================")[0])
    return out


def race_key(rep):
    """dedupe key: function names of the two access stacks without line numbers."""
    fns = re.findall(r"^\s+([\w./()*\[\]-]+)\(\)\s*$", rep, re.M)
    return "|".join(fns[:12])


def load_known():
    open_, fixed = {}, []
    path = os.path.join(ROOT, "KNOWN_FINDINGS.txt")
    try:
        for line in open(path):
            line = line.strip()
            if not line or line.startswith("#"):
                continue
            m = re.match(r"finding:\s+property=(\S+)\s+id=(\S+)\s*(?:::)?\s*(.*)", line)
            if m:
                open_[m.group(2)] = dict(prop=m.group(1), text=m.group(3))
                continue
            if line.startswith("fixed:"):
                fixed.append(line)
    except OSError:
        pass
    return open_, fixed


def write_replay(rundir_keep, prop, k, payload):
    os.makedirs(rundir_keep, exist_ok=True)
    path = os.path.join(rundir_keep, "replay-%s-%d.json" % (prop, k))
    with open(path, "w") as f:
        json.dump(payload, f, indent=1)
    return path


def check(prop, tier):
    seed = int(os.environ.get("VERIF_SEED", "1") or "1")
    t0 = time.time()
    if prop not in PLAN:
        log("no plan for", prop, "(plan file does not load: %s)" % BROKEN[prop] if prop in BROKEN else "")
        return 2
    plan = PLAN[prop]
    rundir = os.path.join(RUN, "%s-%s" % (prop, tier))
    # two invocations of the same check share the run directory: the second one waits (it would otherwise delete the
    # journals of the first, whose children then look as if they had died without a record)
    os.makedirs(RUN, exist_ok=True)
    import fcntl
    _lock = open(rundir + ".lock", "w")
    fcntl.flock(_lock, fcntl.LOCK_EX)
    check._lock = _lock   # held until the process exits
    shutil.rmtree(rundir, ignore_errors=True)
    os.makedirs(rundir, exist_ok=True)
    keep = os.path.join(RUN, "replays")
    # builds
    # development aid of tools/mutsweep.py (scratch repositories only, never honoured for /repo): restrict the jobs to some
    # build variants / dispatch configurations so that hundreds of mutants can be tried; floors are then not enforced
    only_v = set(filter(None, os.environ.get("VERIF_ONLY_VARIANTS", "").split(","))) if ALT else set()
    only_c = set(filter(None, os.environ.get("VERIF_ONLY_CONFIGS", "").split(","))) if ALT else set()
    variants = sorted({ln["variant"] for ln in plan["jobs"] if (not only_v or ln["variant"] in only_v) and (not only_c or set(ln["configs"]) & only_c)})
    with cf.ThreadPoolExecutor(max_workers=2) as ex:
        built = list(ex.map(lambda v: build(prop, v), variants))
    if any(b is None for b in built):
        print("HARNESS-ERROR property=%s /repo does not build with the verif hooks" % prop)
        return 2
    # jobs
    jobs = []
    ti = 0 if tier == "quick" else 1
    for ln in plan["jobs"]:
        if ln.get("thorough_only") and tier == "quick":
            continue
        shards = ln["shards"][ti]
        for cfg in ln["configs"]:
            for s in range(shards):
                if ln.get("one_shard") and s != seed % shards:
                    continue   # mixed-order jobs (plan._add_mixed): one shard of the usual sharding, chosen by the seed
                jobs.append(Job(prop, ln, cfg, s, shards, tier, seed, rundir))
    if only_v or only_c:
        jobs = [j for j in jobs if (not only_v or j.variant in only_v) and (not only_c or j.config in only_c)]
    if os.environ.get("VERIF_ONLY_FUZZ") == "1":
        jobs = []   # development aid for testing the fuzzing stage alone; never set by a registered command (floors then fail the run)
    # coverage-guided fuzzing stage (driver/gofuzz.py): the engine proposes failing inputs, each becomes one more job
    fuzz_events, fuzz_incon, fuzz_herr = {}, [], []
    fz = plan.get("fuzz")
    if fz and not (fz.get("thorough_only") and tier == "quick") and not COVER:
        import gofuzz
        modflag = ["-modfile=" + os.path.join(BIN, "go.mod")] if ALT else []
        flines, fuzz_events, fuzz_incon, fuzz_herr = gofuzz.fuzz_stage(fz, prop, tier, HARNESS, BIN, rundir, keep, goenv(), modflag, log, NCPU)
        for k, ln in enumerate(flines):
            ln["tag"] = "fz%d" % k
            if build(prop, ln["variant"]) is None:
                fuzz_herr.append("child for the fuzz replay does not build")
                continue
            jobs.append(Job(prop, ln, ln["configs"][0], 0, 1, tier, seed, rundir))
    wall_limit = int(os.environ.get("VERIF_JOB_WALL", "1500" if tier == "quick" else "7200"))
    workers = int(os.environ.get("VERIF_JOBS", str(NCPU)))
    # jobs that pin GOMAXPROCS high should not all run at once
    with cf.ThreadPoolExecutor(max_workers=workers) as ex:
        list(ex.map(lambda j: run_job(j, wall_limit), jobs))

    known_open, _fixed = load_known()
    violations = []   # dicts: job, n, kind, msg, desc
    known_seen = {}
    evaluations = 0
    generated = 0
    classes = set()
    events = {}
    samples = []
    incon = []
    harness_errors = []
    tiers = {}
    digests = {}      # (wl, shardinfo, key) -> {value: [job names]}
    per_wl = {}
    trivial_total = [0]
    events.update(fuzz_events)
    incon += fuzz_incon
    harness_errors += fuzz_herr
    for j in jobs:
        recs = read_journal(j.journal)
        hello = [r for r in recs if r.get("t") == "hello"]
        dones = [r for r in recs if r.get("t") == "done"]
        if hello:
            disp = hello[0].get("dispatch") or {}
            tiers.setdefault(j.config + "/" + j.variant, ",".join(sorted(k for k, v in disp.items() if v)))
        harness_errors += ["%s: %s" % (j.name, e) for e in j.harness_errors]
        incon += ["%s: %s" % (j.name, e) for e in j.incon]
        for r in recs:
            t = r.get("t")
            if t == "viol":
                if r.get("known"):
                    kid = r["known"]
                    if kid in known_open and known_open[kid]["prop"] == prop:
                        known_seen.setdefault(kid, dict(count=0, example=r))
                        continue
                    r = dict(r)
                    r["msg"] = "[matches bug model %s, which KNOWN_FINDINGS.txt does not list as open] %s" % (kid, r.get("msg", ""))
                violations.append(dict(job=j, n=r.get("n"), kind=r.get("kind"), msg=r.get("msg"), desc=r.get("desc"), details=r.get("details")))
            elif t == "digest":
                key = (j.wl, j.shard, j.shards, r.get("k"))
                digests.setdefault(key, {}).setdefault(r.get("v"), []).append((j, r.get("n")))
            elif t == "inconclusive":
                incon.append("%s: case %s: %s" % (j.name, r.get("n"), r.get("msg")))
            elif t == "garbled":
                harness_errors.append("%s: garbled journal line" % j.name)
        if j.fuzz_note and not j.crashes and not j.hangs and not any(r.get("t") == "viol" for r in recs):
            incon.append("%s: the input %s did not fail again when the child executed it under the monitors (%s)" % (
                j.name, j.extra_env.get("VERIF_FUZZ_INPUT"), j.fuzz_note))
        for d in dones:
            evaluations += d.get("cases", 0)
            trivial_total[0] += d.get("trivial", 0)
            generated = max(generated, d.get("generated", 0))
            for k in d.get("classes", []):
                classes.add(j.config + "|" + j.variant + "|" + k)
            for k, v in (d.get("events") or {}).items():
                events[k] = events.get(k, 0) + v
            for kid, cnt in (d.get("known") or {}).items():
                if kid in known_seen:
                    known_seen[kid]["count"] += cnt
            if len(samples) < 40 and d.get("samples") and j.shard == 0:
                samples += ["[%s %s/%s] %s" % (j.wl, j.config, j.variant, s) for s in d["samples"][:4]]
            # violations beyond the logged cap
            extra = d.get("violations", 0) - sum(1 for r in recs if r.get("t") == "viol" and not r.get("known"))
            if extra > 0:
                events["violations_not_logged"] = events.get("violations_not_logged", 0) + extra
            per_wl[j.wl] = per_wl.get(j.wl, 0) + d.get("cases", 0)
        if not dones and not j.harness_errors and not j.crashes and not j.hangs and not j.incon:
            harness_errors.append("%s: no done record" % j.name)
        for c in j.crashes:
            violations.append(dict(job=j, n=c["n"], kind="crash", msg="child process died (rc=%s) while executing this case; stderr tail: %s" % (c["rc"], c["tail"][-1500:]), desc=c["desc"]))
        for h in j.hangs:
            violations.append(dict(job=j, n=h["n"], kind="hang", msg="%s; stacks: %s" % (h.get("how") or "hang: case did not return when re-run alone", h["stacks"][:1500]), desc=h["desc"]))
        if j.variant.startswith("race"):
            seen = set()
            reps = race_reports(j)
            events["race_reports_raw"] = events.get("race_reports_raw", 0) + len(reps)
            for rep in reps:
                k = race_key(rep)
                if k in seen:
                    continue
                seen.add(k)
                if "github.com/emmansun/gmsm" in rep:
                    violations.append(dict(job=j, n=None, kind="race", msg=rep[:3000], desc="race detector report (job %s)" % j.name))
                else:
                    incon.append("%s: race report outside the library (harness?): %s" % (j.name, rep[:600]))
    # cross-configuration digests
    xcmp = 0
    for key, vals in digests.items():
        xcmp += sum(len(v) for v in vals.values())
        if len(vals) > 1:
            desc = "; ".join("%s -> %s" % (v[:32], ",".join(sorted({jj.config + "/" + jj.variant for jj, _ in js}))) for v, js in vals.items())
            # blame the minority configurations
            order = sorted(vals.items(), key=lambda kv: len(kv[1]))
            jj, n = order[0][1][0]
            violations.append(dict(job=jj, n=n, kind="config-mismatch", msg="digest %r differs between configurations: %s" % (key[3], desc), desc="cross-configuration transcript step %r" % key[3]))
    if xcmp:
        events["cross_config_digests_compared"] = xcmp
    # floors: a workload that observed nothing fails the run (machinery, not property)
    for ln in plan["jobs"]:
        if ln.get("thorough_only") and tier == "quick":
            continue
        if per_wl.get(ln["wl"], 0) < ln.get("floor", 1) and not (only_v or only_c):
            harness_errors.append("workload %s executed %d cases, floor %d" % (ln["wl"], per_wl.get(ln["wl"], 0), ln.get("floor", 1)))

    # dedupe violations for printing: by (workload, kind, first 80 chars of msg stripped of digits)
    printed = []
    seenk = set()
    for v in violations:
        k = (v["job"].wl, v["kind"], re.sub(r"[0-9a-f]{6,}|\d+", "#", (v["msg"] or ""))[:90])
        if k in seenk and len(printed) >= 1:
            continue
        seenk.add(k)
        printed.append(v)
    rc = 0
    replays = []
    for i, v in enumerate(printed[:25]):
        j = v["job"]
        payload = dict(property=prop, workload=j.wl, variant=j.variant, config=j.config, env_extra=j.extra_env, seed=seed, tier=tier,
                       shard=j.shard, shards=j.shards, case=v["n"], kind=v["kind"], message=v["msg"], description=v["desc"],
                       details=v.get("details"), procs=j.procs,
                       how="./check --replay <this file>  (rebuilds from /repo and re-executes exactly this case in this configuration)")
        path = write_replay(keep, prop, i, payload)
        replays.append(path)
        print("VIOLATION property=%s replay=%s" % (prop, path))
        log("  [%s %s/%s case %s] %s: %s" % (j.wl, j.config, j.variant, v["n"], v["kind"], (v["msg"] or "")[:600]))
        rc = 1
    for kid, info in sorted(known_seen.items()):
        print("KNOWN-FINDING: property=%s %s (id=%s, re-observed %d times, e.g. %s)" % (prop, known_open[kid]["text"], kid, max(info["count"], 1), (info["example"].get("desc") or "")[:160]))
    if harness_errors:
        for e in harness_errors[:20]:
            print("HARNESS-ERROR property=%s %s" % (prop, e[:1500]))
        if rc == 0:
            rc = 2
    wall = time.time() - t0
    cov = dict(
        evaluations=int(evaluations),
        # a case may carry several class keys: never report more distinct cases than non-trivial cases were executed
        distinct_nontrivial=min(len(classes), max(int(evaluations) - trivial_total[0], 0)),
        distinct_class_keys=len(classes),
        trivial_cases=trivial_total[0],
        rule=plan["rule"] + " [distinct_nontrivial = number of distinct class keys (configuration | workload-defined key) observed on "
                            "non-trivial cases, capped by the number of non-trivial cases executed]",
        samples=samples[:40] or ["(none)"],
        configurations_observed=tiers,
        events=events,
        cases_per_workload=per_wl,
        jobs=len(jobs),
        inconclusive=len(incon),
        inconclusive_notes=incon[:20],
        known_findings_seen={k: v["count"] for k, v in known_seen.items()},
        violations_distinct=len(printed),
        replay_files=replays,
    )
    if plan.get("exhaustive_note"):
        cov["exhaustive_subspaces"] = plan["exhaustive_note"]
    ev = dict(property_id=prop, tier=tier, seed=seed, level=plan.get("level", "exploration"), coverage=cov,
              assumptions=plan.get("assumptions", []) + [
                  "Go toolchain, runtime, race detector and kernel page protection are trusted",
                  "only linux/amd64 code paths execute here; 'held' means held on the cases listed, not verified"],
              wall_s=round(wall, 2), violations=len(violations))
    os.makedirs(EVID, exist_ok=True)
    if evaluations > 0:
        tmp = os.path.join(EVID, ".%s.%d.tmp" % (prop, os.getpid()))
        with open(tmp, "w") as f:
            json.dump(ev, f, indent=1, sort_keys=True)
        os.replace(tmp, os.path.join(EVID, prop + ".json"))
    log("%s %s: %d cases, %d distinct classes, %d violations (%d distinct), %d known, %d inconclusive, %.1fs -> exit %d"
        % (prop, tier, evaluations, len(classes), len(violations), len(printed), len(known_seen), len(incon), wall, rc))
    if rc == 0:
        # keep the run directory small: journals are only needed for diagnosis
        for p in glob.glob(os.path.join(rundir, "*.cur")):
            try:
                os.remove(p)
            except OSError:
                pass
    return rc


def replay(path):
    r = json.load(open(path))
    prop = r["property"]
    if build(prop, r["variant"]) is None:
        print("HARNESS-ERROR property=%s /repo does not build" % prop)
        return 2
    rundir = os.path.join(RUN, "replay-run")
    shutil.rmtree(rundir, ignore_errors=True)
    os.makedirs(rundir)
    line = dict(wl=r["workload"], variant=r["variant"], env=r.get("env_extra") or {}, procs=r.get("procs"))
    j = Job(prop, line, r["config"], r.get("shard", 0), r.get("shards", 1), r["tier"], r["seed"], rundir)
    if r.get("case") in (None, 0):
        # race reports and init crashes are properties of a whole job: re-run the shard
        run_job(j, 7200)
    else:
        if r.get("kind") == "hang":
            how = confirm_hang(j, r["case"])
            if how.startswith("hang"):
                j.hangs.append(dict(n=r["case"], desc="", stacks="", how=how))
            elif how != "returned":
                print("replay inconclusive: %s" % how)
        else:
            rcode = run_child(j, j.argv(only=r["case"], deadline="4h"), 7200)
            if rcode not in (0, 3, 4, 5, "timeout"):
                n, desc = read_cur(j.cur)
                j.crashes.append(dict(n=n, desc=desc, rc=rcode, tail=tail(j.stderr)))
    known_open, _ = load_known()
    bad = 0
    for rec in read_journal(j.journal):
        if rec.get("t") == "viol":
            if rec.get("known") in known_open:
                print("KNOWN-FINDING: property=%s %s" % (prop, known_open[rec["known"]]["text"]))
                continue
            bad += 1
            print(json.dumps(rec, indent=1)[:6000])
    for c in j.crashes:
        bad += 1
        print("crash rc=%s case=%s %s\n%s" % (c["rc"], c["n"], c["desc"], c["tail"][-3000:]))
    for h in j.hangs:
        bad += 1
        print("case %s: %s" % (h["n"], h.get("how") or "hang: did not return"))
    if j.variant.startswith("race"):
        for rep in race_reports(j):
            if "github.com/emmansun/gmsm" in rep:
                bad += 1
                print(rep[:4000])
    if bad:
        print("VIOLATION property=%s replay=%s" % (prop, path))
        return 1
    print("replay: the case did not violate the property on the current tree")
    return 0


def main(argv):
    if len(argv) >= 3 and argv[1] == "--replay":
        return replay(argv[2])
    if len(argv) >= 2 and argv[1] == "--build":
        # setup: warm the Go build cache for every variant any plan uses
        ok = True
        try:
            enabled = [l.strip() for l in open(os.path.join(HERE, "enabled.txt")) if l.strip() and not l.startswith("#")]
        except OSError:
            enabled = sorted(PLAN)
        for prop in sorted(PLAN):
            if prop not in enabled:
                continue
            for v in sorted({ln["variant"] for ln in PLAN[prop]["jobs"]}):
                ok = (build(prop, v) is not None) and ok
        return 0 if ok else 2
    if len(argv) < 3 or argv[2] not in ("quick", "thorough"):
        print(__doc__)
        return 2
    return check(argv[1], argv[2])


if __name__ == "__main__":
    sys.exit(main(sys.argv))
