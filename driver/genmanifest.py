#!/usr/bin/env python3
"""Regenerates /verif/MANIFEST.json from driver/plan.py and driver/claims.py."""
import json, os, sys
HERE = os.path.dirname(os.path.abspath(__file__))
sys.path.insert(0, HERE)
from plan import PLAN, CLAIMS, BROKEN
if BROKEN:
    sys.exit('plan files that do not load: %r' % BROKEN)
from claims import NOT_APPLICABLE, HOOK_COMMITS

ROOT = os.path.dirname(HERE)
# only properties listed in driver/enabled.txt are claimed (a plan file may exist while its workload is still being built)
ENABLED = [l.strip() for l in open(os.path.join(HERE, "enabled.txt")) if l.strip() and not l.startswith("#")]
checks = []
for pid in sorted(PLAN):
    if pid not in ENABLED:
        continue
    c = CLAIMS[pid]
    checks.append(dict(
        property_id=pid,
        quick_cmd="./check %s quick" % pid,
        thorough_cmd="./check %s thorough" % pid,
        evidence_file="/verif/evidence/%s.json" % pid,
        replay_cmd_template="./check --replay {path}",
        engine="vchild",
        level_claimed=dict(category=PLAN[pid].get("level", "exploration"), text=c["text"], design_ref=c["design_ref"]),
        level_note=c["note"] + "; build variants executed: " + ", ".join(
            {"asm": "asm (amd64 assembly, dispatch tiers forced through GODEBUG)", "purego": "purego", "plugin": "plugin (build tag plugin: alternative amd64 assembly)",
             "ia32": "ia32 (GOARCH=386: generic code with 32-bit words)", "race": "race (race detector + checkptr)", "race-purego": "race-purego"}[v]
            for v in sorted({ln["variant"] for ln in PLAN[pid]["jobs"]})),
        technique=c["technique"],
    ))
na = [dict(property_id=p, reason=r) for p, r in sorted(NOT_APPLICABLE.items()) if p not in ENABLED or p not in PLAN]
m = dict(
    version=1,
    setup_cmd="./check --build",
    hooks=dict(guard="verif (Go build tag)", enable="go build -tags verif (harness/go.mod replaces github.com/emmansun/gmsm with /repo; every check rebuilds the child binary from /repo's working tree)",
               baseline_off_cmd="cd /repo && GOFLAGS=-mod=mod GOPROXY=off GOSUMDB=off go test -json -vet=off -count=1 -timeout 25m ./...",
               source_commits=HOOK_COMMITS, add_only=True),
    engines=[dict(name="vchild", path="/verif/harness/cmd/vc", serves_properties=sorted(p for p in PLAN if p in ENABLED),
                  kind_free_text="Go child binary (one process per build variant x dispatch configuration x workload x shard) executing the real library "
                                 "under generated/hostile/stress workloads with reference-model, accept-set, history, panic/fault, guard-page and "
                                 "race-detector monitors; python3 driver plans, spawns, attributes crashes, compares configurations and writes evidence")],
    checks=checks,
    notes="Technique family: runtime monitoring and sanitizers. See DESIGN.md. KNOWN_FINDINGS.txt lists open findings and fixed defects.",
    not_applicable=na,
)
json.dump(m, open(os.path.join(ROOT, "MANIFEST.json"), "w"), indent=1)
print("wrote MANIFEST.json with", len(checks), "checks,", len(na), "not_applicable")
