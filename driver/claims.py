"""Manifest wording that is not per property."""

HOOK_COMMITS = ["3627163"]

NOT_BUILT = "check not built yet in this session (runtime-monitoring design in DESIGN.md section 6); will be claimed when its workload exists"

NOT_APPLICABLE = {p: NOT_BUILT for p in ["C%02d" % i for i in range(1, 21)]}
