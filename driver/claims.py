"""Per-property wording for MANIFEST.json (level text, trusted base, technique)."""

HOOK_COMMITS = ["3627163"]

NOT_BUILT = "check not built yet in this session (runtime-monitoring design in DESIGN.md section 6); will be claimed when its workload exists"

NOT_APPLICABLE = {p: NOT_BUILT for p in ["C%02d" % i for i in range(1, 21)]}

CLAIMS = {
    "C18": dict(
        text="Runtime monitoring of padding.New*Padding: every (scheme, block size 1..255, length 0..3bs+1) pair is executed and compared "
             "with an independent reference, the accept set of Unpad is enumerated exhaustively for block sizes <= 4 over a 6-9 symbol "
             "alphabet and sampled for larger blocks, panics and writes beyond offered capacity are observed. Exhaustive on the finite "
             "sub-spaces listed in the evidence, exploration elsewhere.",
        design_ref="DESIGN.md 6 (C18)",
        note="trusted: harness/ref/pad reference definitions, Go runtime; message contents beyond the listed kinds are sampled",
        technique="differential reference monitor + exhaustive small accept-set enumeration + panic monitor",
    ),
}
