"""Static plan: which workloads, build variants, dispatch configurations and shard
counts decide each property.  Numbers of cases are fixed inside the workloads by
the tier (quick/thorough); nothing here depends on wall-clock time."""

# build variants -> go build flags
VARIANTS = {
    "asm": ["-tags", "verif"],
    "purego": ["-tags", "verif,purego"],
    # build tag "plugin": the library's alternative amd64 assembly for Go plugin builds (internal/sm2ec/p256_plugin_amd64.s,
    # internal/sm9/bn256/gfp_plugin_amd64.s + the generic gfp2/g1 helpers); no GODEBUG setting selects it
    "plugin": ["-tags", "verif,plugin"],
    # 32-bit x86 build (GOARCH=386, see VARIANT_ENV): the generic code with 32-bit words and ints (bigmod limbs, length
    # arithmetic, math/bits fallbacks); runs natively on the amd64 kernel
    "ia32": ["-tags", "verif"],
    "race": ["-tags", "verif", "-race"],
    "race-purego": ["-tags", "verif,purego", "-race"],
}

# build variants -> extra environment of `go build`
VARIANT_ENV = {"ia32": {"GOARCH": "386", "CGO_ENABLED": "0"}}

# dispatch configurations -> environment of the child (GODEBUG entries are merged)
CONFIGS = {
    "avx2": {},
    "avx": {"GODEBUG": "cpu.avx2=off"},
    "sse": {"GODEBUG": "cpu.avx2=off,cpu.avx=off"},
    "scalar": {"GODEBUG": "cpu.avx2=off,cpu.avx=off,cpu.ssse3=off"},
    "noclmul": {"GODEBUG": "cpu.pclmulqdq=off"},
    # AES-NI without PCLMULQDQ combined with the narrower SIMD tiers: the table-driven GCM over 4-block batches
    "noclmul-avx": {"GODEBUG": "cpu.pclmulqdq=off,cpu.avx2=off"},
    "noclmul-sse": {"GODEBUG": "cpu.pclmulqdq=off,cpu.avx2=off,cpu.avx=off"},
    "noaes": {"GODEBUG": "cpu.aes=off"},
    "noadx": {"GODEBUG": "cpu.adx=off"},
    "nobmi2": {"GODEBUG": "cpu.bmi2=off"},
    "noadx-avx": {"GODEBUG": "cpu.adx=off,cpu.avx2=off"},   # plain MULQ field arithmetic together with the SSE table select
    "aesni1": {"FORCE_SM4BLOCK_AESNI": "1"},
    "sha1ok": {"GODEBUG": "x509sha1=1"},
    "purego": {},  # used with the purego variants
    "ia32": {},    # used with the ia32 variant
}


def J(wl, configs=("avx2",), variant="asm", shards=(4, 16), floor=1, env=None, deadline=None, procs=None, tag=None):
    """one plan line = workload x configurations (each configuration is run in
    `shards` child processes)."""
    d = dict(wl=wl, configs=list(configs), variant=variant, shards=shards, floor=floor,
             env=env or {}, deadline=deadline, procs=procs)
    if tag:
        d["tag"] = tag
    return d


def after(prelude, wl, configs=("avx2",), variant="asm", shards=(1, 2), slice_of=16, **kw):
    """`wl` run after a prelude in the same process: a 1/slice_of slice of the quick cases of every workload in
    `prelude` is executed first (journal discarded; those workloads are judged by their own jobs), so that whatever
    they leave in package-level state of the library is what `wl` is judged in (harness/childmain)."""
    env = dict(kw.pop("env", None) or {})
    env["VERIF_PRELUDE"] = ",".join(prelude)
    env["VERIF_PRELUDE_SHARDS"] = str(slice_of)
    return J(wl, configs, variant, shards, env=env, tag="after", **kw)


def both(wl, configs, shards=(4, 16), **kw):
    """asm variant over `configs` plus the purego variant."""
    out = [J(wl, [c for c in configs if c not in ("purego", "ia32")], "asm", shards, **kw)]
    if "purego" in configs:
        out.append(J(wl, ["purego"], "purego", shards, **kw))
    if "ia32" in configs:
        out.append(J(wl, ["ia32"], "ia32", shards, **kw))
    return out


def plugin(wl, configs=("avx2", "noadx"), shards=(1, 4), **kw):
    """the plugin-tag build over the given dispatch configurations."""
    return [J(wl, list(configs), "plugin", shards, **kw)]


def _add_mixed(plan):
    """Mixed-order jobs, added to every plan (opt out with mixed=False): each workload of the property is run once more
    in the default configuration of the asm and of the purego variant AFTER a 1/16 slice of every other workload of
    the property in the same process (helper `after`), one shard of its usual sharding (the shard index follows
    VERIF_SEED). The order in which object kinds and parameter choices are constructed and used in one process is
    otherwise fixed by the process structure (one workload per process), so state that one kind leaves in
    package-level variables of the library for another kind would never be observed."""
    if plan.get("mixed") is False:
        return
    wls, seen = [], set()
    for ln in plan["jobs"]:
        if ln.get("thorough_only") or ln.get("tag") or ln["wl"] in seen or ln["wl"].endswith(("timerule", "fuzzreplay")):
            continue
        seen.add(ln["wl"])
        wls.append(ln)
    if len(wls) < 2:
        return
    variants = []
    for v in ("asm", "purego", "race"):
        if any(ln["variant"] == v for ln in plan["jobs"]):
            variants.append(v)
    extra = []
    def runs_in(wl, v, cfg):
        # a workload belongs to a prelude only if the plan itself runs it in that variant and configuration
        # (c15.sha1 / c16.sha1 exist for configuration sha1ok only and refuse to run elsewhere)
        return any(o["wl"] == wl and o["variant"] == v and cfg in o["configs"] and not o.get("thorough_only") and not o.get("tag")
                   for o in plan["jobs"])

    for ln in wls:
        for v in variants[:2]:
            same = [o for o in plan["jobs"] if o["wl"] == ln["wl"] and o["variant"] == v and not o.get("thorough_only")]
            if not same:
                continue
            cfg = same[0]["configs"][0]
            prelude = [o["wl"] for o in wls if o["wl"] != ln["wl"] and runs_in(o["wl"], v, cfg)]
            if not prelude:
                continue
            j = after(prelude, ln["wl"], [cfg], v, shards=same[0]["shards"], deadline=same[0].get("deadline"),
                      env=same[0].get("env"))
            j["one_shard"] = True
            extra.append(j)
    plan["jobs"] = plan["jobs"] + extra


PLAN = {}
CLAIMS = {}
BROKEN = {}   # property -> error text of a plan file that does not load


def _load():
    """every driver/plans/cNN.py defines PLAN (the plan entry of its property) and CLAIM."""
    import glob
    import importlib.util
    import os
    here = os.path.dirname(os.path.abspath(__file__))
    for f in sorted(glob.glob(os.path.join(here, "plans", "c[0-9][0-9].py"))):
        pid = os.path.basename(f)[:-3].upper()
        spec = importlib.util.spec_from_file_location("plans_" + pid, f)
        m = importlib.util.module_from_spec(spec)
        m.J, m.both, m.plugin, m.after = J, both, plugin, after
        try:
            spec.loader.exec_module(m)
        except Exception as e:  # a broken plan file must break its own property only, not every check
            BROKEN[pid] = "%s: %s" % (type(e).__name__, e)
            continue
        PLAN[pid] = m.PLAN
        CLAIMS[pid] = m.CLAIM
        _add_mixed(m.PLAN)


_load()
