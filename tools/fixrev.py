#!/usr/bin/env python3
"""Self-test of the monitors against every repaired defect: for each `fixed:` line of KNOWN_FINDINGS.txt the fix commit is
reverted on a scratch worktree of /repo HEAD and the property's quick check is run against it (VERIF_REPO mode): it must
exit 1 with a VIOLATION line. usage: tools/fixrev.py [-j N] [commit ...]   -> writes run/fixrev.json and prints a table"""
import re, subprocess, sys, os, json, hashlib, shutil, concurrent.futures as cf
args = sys.argv[1:]
jobs = 2
if args[:1] == ['-j']:
    jobs = int(args[1]); args = args[2:]
ents = []
for l in open('/verif/KNOWN_FINDINGS.txt'):
    m = re.match(r"fixed:\s+property=(\S+)\s+([0-9a-f]{7,})\s+(.*)", l.strip())
    if m and (not args or m.group(2) in args):
        ents.append(m.groups())
env = dict(os.environ, GOFLAGS="-mod=mod", GOPROXY="off", GOSUMDB="off", GOTOOLCHAIN="local")


def sh(cmd, cwd=None, e=None):
    p = subprocess.run(cmd, shell=True, cwd=cwd, env=e or env, stdout=subprocess.PIPE, stderr=subprocess.STDOUT, text=True)
    return p.returncode, p.stdout


def one(ent):
    prop, commit, text = ent
    wt = "/tmp/fixrev/%s-%s" % (prop, commit)
    shutil.rmtree(wt, ignore_errors=True)
    os.makedirs("/tmp/fixrev", exist_ok=True)
    rc, out = sh("git -C /repo worktree add -q --detach %s HEAD" % wt)
    res = dict(property=prop, commit=commit, what=text[:100])
    try:
        rc, out = sh("git revert --no-commit %s" % commit, cwd=wt)
        if rc != 0:
            res["result"] = "revert does not apply cleanly (later commits touch the same lines)"
            return res
        rc, out = sh("go build ./...", cwd=wt)
        if rc != 0:
            res["result"] = "reverted tree does not build"
            return res
        rc, out = sh("./check %s quick" % prop, cwd="/verif", e=dict(os.environ, VERIF_REPO=wt))
        viol = [l for l in out.splitlines() if l.startswith("VIOLATION")]
        lines = out.splitlines()
        first = ""
        for i, l in enumerate(lines):
            if l.startswith("VIOLATION") and i + 1 < len(lines):
                first = lines[i + 1].strip()[:200]
                break
        res.update(exit=rc, violation_lines=len(viol), first=first, result="caught" if rc == 1 and viol else "NOT CAUGHT (exit %s)" % rc)
        return res
    finally:
        tag = hashlib.sha1(os.path.abspath(wt).encode()).hexdigest()[:8]
        shutil.rmtree("/verif/run/alt-" + tag, ignore_errors=True)
        shutil.rmtree("/verif/bin/alt-" + tag, ignore_errors=True)
        sh("git -C /repo worktree remove --force %s" % wt)


with cf.ThreadPoolExecutor(max_workers=jobs) as ex:
    results = list(ex.map(one, ents))
os.makedirs('/verif/run', exist_ok=True)
json.dump(results, open('/verif/run/fixrev.json', 'w'), indent=1)
for r in results:
    print("%-4s %-8s %-60s %s" % (r['property'], r['commit'], r['result'], r.get('first', '')[:110]))
print("%d fixes, %d caught" % (len(results), sum(1 for r in results if r['result'] == 'caught')))
