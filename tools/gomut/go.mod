module gomut

go 1.23
