// gomut enumerates and applies small source mutations to one Go file (development tool of the mutation sweep,
// tools/mutsweep.py; no part of any registered check). Only the standard library is used.
//
//	gomut -list file.go            JSON lines: {"id":N,"line":L,"kind":"...","func":"...","orig":"...","repl":"..."}
//	gomut -apply N file.go         the mutated source on stdout
package main

import (
	"encoding/json"
	"flag"
	"fmt"
	"go/ast"
	"go/parser"
	"go/token"
	"os"
	"sort"
	"strconv"
	"strings"
)

type site struct {
	ID    int    `json:"id"`
	Line  int    `json:"line"`
	Kind  string `json:"kind"`
	Func  string `json:"func"`
	Orig  string `json:"orig"`
	Repl  string `json:"repl"`
	start int    // byte offsets of the replaced span
	end   int
}

var relSwap = map[token.Token]string{
	token.LSS: "<=", token.LEQ: "<", token.GTR: ">=", token.GEQ: ">", token.EQL: "!=", token.NEQ: "==",
}
var arithSwap = map[token.Token]string{
	token.ADD: "-", token.SUB: "+", token.AND: "|", token.OR: "&", token.SHL: ">>", token.SHR: "<<",
	token.LAND: "||", token.LOR: "&&", token.XOR: "|", token.REM: "/", token.AND_NOT: "&",
}

func main() {
	list := flag.Bool("list", false, "list mutation sites")
	apply := flag.Int("apply", -1, "apply mutation N")
	flag.Parse()
	if flag.NArg() != 1 {
		fmt.Fprintln(os.Stderr, "usage: gomut -list|-apply N file.go")
		os.Exit(2)
	}
	src, err := os.ReadFile(flag.Arg(0))
	if err != nil {
		panic(err)
	}
	fset := token.NewFileSet()
	f, err := parser.ParseFile(fset, flag.Arg(0), src, parser.ParseComments)
	if err != nil {
		panic(err)
	}
	var sites []site
	off := func(p token.Pos) int { return fset.Position(p).Offset }
	add := func(kind, fn string, s, e int, repl string) {
		sites = append(sites, site{Line: fset.Position(fset.File(f.Pos()).Pos(s)).Line, Kind: kind, Func: fn, Orig: string(src[s:e]), Repl: repl, start: s, end: e})
	}
	for _, d := range f.Decls {
		fd, ok := d.(*ast.FuncDecl)
		if !ok || fd.Body == nil {
			continue
		}
		fn := fd.Name.Name
		if fd.Recv != nil && len(fd.Recv.List) > 0 {
			t := fd.Recv.List[0].Type
			if st, ok := t.(*ast.StarExpr); ok {
				t = st.X
			}
			if id, ok := t.(*ast.Ident); ok {
				fn = id.Name + "." + fn
			} else if ix, ok := t.(*ast.IndexExpr); ok {
				if id, ok := ix.X.(*ast.Ident); ok {
					fn = id.Name + "." + fn
				}
			}
		}
		if strings.HasPrefix(fn, "Verif") {
			continue
		}
		depthComposite := 0
		var walk func(n ast.Node) bool
		walk = func(n ast.Node) bool {
			switch x := n.(type) {
			case *ast.CompositeLit:
				depthComposite++
				for _, e := range x.Elts {
					ast.Inspect(e, walk)
				}
				depthComposite--
				return false
			case *ast.BinaryExpr:
				if r, ok := relSwap[x.Op]; ok {
					s := off(x.OpPos)
					add("rel", fn, s, s+len(x.Op.String()), r)
				} else if r, ok := arithSwap[x.Op]; ok {
					s := off(x.OpPos)
					add("arith", fn, s, s+len(x.Op.String()), r)
				}
			case *ast.BasicLit:
				if x.Kind == token.INT && depthComposite == 0 {
					v, err := strconv.ParseInt(strings.ReplaceAll(x.Value, "_", ""), 0, 64)
					if err == nil {
						s, e := off(x.Pos()), off(x.End())
						add("lit+1", fn, s, e, strconv.FormatInt(v+1, 10))
						if v > 0 {
							add("lit-1", fn, s, e, strconv.FormatInt(v-1, 10))
						}
					}
				}
			case *ast.IfStmt:
				// guard-style if (no else, body ends in return/continue/break/panic): the check is dropped
				if x.Else == nil && len(x.Body.List) > 0 {
					last := x.Body.List[len(x.Body.List)-1]
					guard := false
					switch l := last.(type) {
					case *ast.ReturnStmt, *ast.BranchStmt:
						guard = true
					case *ast.ExprStmt:
						if c, ok := l.X.(*ast.CallExpr); ok {
							if id, ok := c.Fun.(*ast.Ident); ok && id.Name == "panic" {
								guard = true
							}
						}
					}
					s, e := off(x.Cond.Pos()), off(x.Cond.End())
					if guard {
						add("ifskip", fn, s, e, "("+string(src[s:e])+") && false")
					} else {
						add("ifnot", fn, s, e, "!("+string(src[s:e])+")")
					}
				} else if x.Else != nil {
					s, e := off(x.Cond.Pos()), off(x.Cond.End())
					add("ifnot", fn, s, e, "!("+string(src[s:e])+")")
				}
			case *ast.ExprStmt:
				if c, ok := x.X.(*ast.CallExpr); ok {
					if id, ok := c.Fun.(*ast.Ident); ok && id.Name == "panic" {
						break
					}
					s, e := off(x.Pos()), off(x.End())
					add("delcall", fn, s, e, "{}")
				}
			case *ast.IncDecStmt:
				s, e := off(x.Pos()), off(x.End())
				add("delstmt", fn, s, e, "{}")
			case *ast.AssignStmt:
				if x.Tok != token.DEFINE {
					s, e := off(x.Pos()), off(x.End())
					if !strings.Contains(string(src[s:e]), "\n") {
						add("delassign", fn, s, e, "{}")
					}
				}
			case *ast.DeferStmt:
				s, e := off(x.Pos()), off(x.End())
				add("deldefer", fn, s, e, "{}")
			case *ast.UnaryExpr:
				if x.Op == token.NOT {
					s := off(x.OpPos)
					add("delnot", fn, s, s+1, "")
				}
			}
			return true
		}
		ast.Inspect(fd.Body, walk)
	}
	sort.SliceStable(sites, func(i, j int) bool { return sites[i].start < sites[j].start })
	for i := range sites {
		sites[i].ID = i
	}
	if *list {
		enc := json.NewEncoder(os.Stdout)
		for _, s := range sites {
			if len(s.Orig) > 120 {
				s.Orig = s.Orig[:120]
			}
			if len(s.Repl) > 140 {
				s.Repl = s.Repl[:140]
			}
			enc.Encode(s)
		}
		return
	}
	if *apply < 0 || *apply >= len(sites) {
		fmt.Fprintln(os.Stderr, "no such site")
		os.Exit(2)
	}
	s := sites[*apply]
	os.Stdout.Write(src[:s.start])
	os.Stdout.WriteString(s.Repl)
	os.Stdout.Write(src[s.end:])
}
