#!/usr/bin/env python3
"""prints markdown tables (open findings, fixed defects) from KNOWN_FINDINGS.txt"""
import re, sys
open_, fixed = [], []
for l in open('/verif/KNOWN_FINDINGS.txt'):
    l = l.strip()
    m = re.match(r"finding:\s+property=(\S+)\s+id=(\S+)\s*::\s*(.*)", l)
    if m:
        open_.append(m.groups())
    m = re.match(r"fixed:\s+property=(\S+)\s+(\S+)\s+(.*)", l)
    if m:
        fixed.append(m.groups())
print("| property | matcher id | what fails |\n|---|---|---|")
for p, i, t in sorted(open_):
    print("| %s | `%s` | %s |" % (p, i, t))
print()
print("| property | fix commit | what failed |\n|---|---|---|")
for p, c, t in sorted(fixed):
    print("| %s | `%s` | %s |" % (p, c, t))
print("\n%d open findings, %d fixed defects" % (len(open_), len(fixed)), file=sys.stderr)
