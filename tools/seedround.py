#!/usr/bin/env python3
"""usage: tools/seedround.py <round-number> : writes /tmp/seedbrief<R>/CNN.txt for all 20 properties (ideas already filed are excluded)"""
import json, glob, os, subprocess, sys
R = sys.argv[1]
used = {}
for d in glob.glob('/verif/seeded/*/meta.json'):
    if '-via-' in d:
        continue
    m = json.load(open(d))
    used.setdefault(m.get('property'), []).append((m.get('title') or m.get('what_it_breaks', ''))[:170])
os.makedirs('/tmp/seedbrief%s' % R, exist_ok=True)
for i in range(1, 21):
    pid = 'C%02d' % i
    txt = subprocess.run(['python3', '/verif/tools/seedprompt.py', pid, '3'], stdout=subprocess.PIPE, text=True).stdout
    lp = pid.lower()
    txt = txt.replace('/tmp/seed/%s/' % lp, '/tmp/seed%s/%s/' % (R, lp))
    ex = "\n".join("  - " + t for t in sorted(set(used.get(pid, []))))
    txt += ("\n\nIDEAS ALREADY USED by earlier seeding rounds for this property — do NOT repeat these or close variants of them; look for "
            "different code sites, different mechanisms and different things-needed-to-manifest (other entry points named in the statement, "
            "other CPU tiers, multi-step histories on objects, aliasing and buffer reuse, error paths and state that survives a failed call, "
            "interactions between two functions that each look fine alone, rarely used options and constructors, boundary values and lengths "
            "the earlier ideas did not touch, multiplicity (2-3 of what is usually 1), encodings of the same value, concurrency where the "
            "property speaks of it):\n" + (ex or "  (none)") + "\n")
    open('/tmp/seedbrief%s/%s.txt' % (R, pid), 'w').write(txt)
print("wrote briefs for round", R)
