#!/bin/bash
# usage: tools/batchverify.sh <srcroot> <idprefix-suffix> prop... ; e.g. tools/batchverify.sh /tmp/seed2 r2 C01 C02
root=$1; suf=$2; shift 2
for P in "$@"; do d=$(echo $P | tr A-Z a-z); for k in 1 2 3; do
  [ -d $root/$d/m$k ] || continue
  id=$d-m$k; [ -n "$suf" ] && id=$d-$suf-m$k
  echo -n "$id: "; python3 /verif/tools/seedverify.py $root/$d/m$k $id $P 2>&1 | grep -E '"demo_clean"|"demo_patched"|"ok"|"detected"|violation_lines' | tr -d '\n'; echo
done; done
