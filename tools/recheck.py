#!/usr/bin/env python3
"""Re-runs the registered check against a filed seeded change (after the check was strengthened) and records the
result as meta.json 'recheck' (the first result stays in 'verification.check').
usage: tools/recheck.py <seed-id> [property] [quick|thorough]"""
import json, os, shutil, subprocess, sys, hashlib
sid = sys.argv[1]
d = "/verif/seeded/" + sid
meta = json.load(open(d + "/meta.json"))
prop = sys.argv[2] if len(sys.argv) > 2 else meta["property"]
tier = sys.argv[3] if len(sys.argv) > 3 else "quick"
wt = "/tmp/rc/" + sid
shutil.rmtree(wt, ignore_errors=True)
os.makedirs("/tmp/rc", exist_ok=True)
subprocess.run("git -C /repo worktree prune; git -C /repo worktree add -q --detach %s HEAD" % wt, shell=True, check=True)
try:
    # later fix commits may have moved the context lines: fall back to patch(1) with fuzz
    if subprocess.run(["git", "apply", d + "/patch.diff"], cwd=wt).returncode != 0:
        subprocess.run("patch -p1 -F3 --no-backup-if-mismatch < %s/patch.diff" % d, shell=True, cwd=wt, check=True)
    p = subprocess.run("./check %s %s" % (prop, tier), shell=True, cwd="/verif", env=dict(os.environ, VERIF_REPO=wt),
                       stdout=subprocess.PIPE, stderr=subprocess.STDOUT, text=True)
    lines = p.stdout.splitlines()
    idx = [i for i, l in enumerate(lines) if l.startswith("VIOLATION")]
    head = subprocess.run("git -C /repo rev-parse --short HEAD; git -C /verif rev-parse --short HEAD", shell=True, stdout=subprocess.PIPE, text=True).stdout.split()
    meta["recheck"] = dict(cmd="VERIF_REPO=<scratch worktree with the patch> ./check %s %s" % (prop, tier), exit=p.returncode,
                           violation_lines=len(idx), first=[lines[i + 1][:500] for i in idx[:3] if i + 1 < len(lines)],
                           detected=p.returncode == 1 and len(idx) > 0, repo_head=head[0], verif_head=head[1])
finally:
    tag = hashlib.sha1(os.path.abspath(wt).encode()).hexdigest()[:8]
    shutil.rmtree("/verif/run/alt-" + tag, ignore_errors=True)
    shutil.rmtree("/verif/bin/alt-" + tag, ignore_errors=True)
    subprocess.run("git -C /repo worktree remove --force %s" % wt, shell=True)
json.dump(meta, open(d + "/meta.json", "w"), indent=1)
print(sid, json.dumps(meta["recheck"])[:600])
