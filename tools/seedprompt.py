#!/usr/bin/env python3
"""prints the prompt given to a fresh seeding sub-agent for one property (contains nothing from /verif but the property text)"""
import json, sys
pid = sys.argv[1]
n = int(sys.argv[2]) if len(sys.argv) > 2 else 3
props = {json.loads(l)['id']: json.loads(l) for l in open('/verif/properties.jsonl')}
p = props[pid]
lp = pid.lower()
print(f"""You help evaluate how robust a verification effort for the Go library emmansun/gmsm (Chinese SM2/SM3/SM4/SM9/ZUC cryptography, source in /repo) is, by seeding realistic defects. You know nothing about the verification machinery and must not look for it: do NOT read anything under /verif. Do NOT modify /repo itself; work only in your own git worktree: `git -C /repo worktree add --detach /tmp/seed/{lp}/wt HEAD`. Env for every go command: GOFLAGS=-mod=mod GOPROXY=off GOSUMDB=off GOTOOLCHAIN=local (no network). (The tree contains a few files tagged `//go:build verif`; ignore them.)

PROPERTY {pid}: {p['title']}
Statement: {p['statement']}
Quantified over: {p['quantifier']['text']}
Code anchors: {', '.join(p['anchors']['files'])}

TASK: produce {n} DIFFERENT source changes to the library (each one applied on its own to a clean worktree; different mechanisms / different code sites) that BREAK this property while
 (a) still compiling (`go build ./...`),
 (b) passing the library's existing unit tests unedited: run at least `go test -count=1` for every package you touched and the packages that import it, preferably the whole suite `go test -count=1 ./...` (about 4 minutes; NOTE exactly three tests in ./pkcs7 fail already on the clean tree because SHA1-RSA is refused by default — ignore those three),
 (c) being realistic: the kind of regression a refactoring, an optimisation, a merge or a copy-paste could introduce (off-by-one in a tail loop, dropped or weakened check, wrong carry, wrong constant in ONE CPU tier's assembly or in the pure-Go path only, stale cache, missing lock / dropped sync.Once, swapped arguments, wrong buffer reuse, partial handling of an edge length, ...), not sabotage that any use would expose,
 (d) needing something SPECIFIC to manifest: a particular length residue or block count, a particular CPU dispatch tier (the library picks tiers from CPU features; they can be forced with GODEBUG=cpu.avx2=off, cpu.avx=off, cpu.ssse3=off, cpu.aes=off, cpu.pclmulqdq=off, cpu.adx=off, cpu.bmi2=off, env FORCE_SM4BLOCK_AESNI=1, or build tag purego), a particular interleaving, a crash or fault at a particular point, a multi-step sequence of operations, an unusual input, or two cooperating sites that each look fine alone. Changes that ordinary use would expose at once are NOT wanted.
Prefer subtle over gross. Make the {n} changes differ in what they need in order to manifest.

DELIVERABLES, for K = 1..{n}, in /tmp/seed/{lp}/mK/ :
 - patch.diff : `git diff` against the worktree HEAD (must apply with `git apply` on a clean checkout of the same commit); touch library sources only, no test files.
 - a demonstration: demo_test.go (a Go test file; say in meta which package directory it must be copied into and the `go test -run` command, plus any env such as GODEBUG) or a small main program, that FAILS with the change applied and PASSES on the clean tree. The demo must call only the public API of the library (or exported names of the package it lives in).
 - meta.json : {{"property": "{pid}", "title": "...", "what_it_breaks": "...", "needs_to_manifest": "...", "files_changed": [...], "demo_package_dir": "...", "demo_command": "...", "demo_env": "...", "existing_tests_run": ["command -> result", ...]}}
Verify each change yourself on a clean worktree state: demo passes without, compiles with, existing tests pass with, demo fails with. Reset the worktree between changes (`git -C /tmp/seed/{lp}/wt checkout -- . && git -C /tmp/seed/{lp}/wt clean -fd`); never use `git stash` (it is shared between all worktrees of /repo and other agents work concurrently).
At the end remove the worktree and its build output (`git -C /repo worktree remove --force /tmp/seed/{lp}/wt`), keep only /tmp/seed/{lp}/mK/. Final message: one short paragraph per change (what, where, what it needs to manifest, test results).""")
