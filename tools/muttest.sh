#!/bin/bash
# usage: tools/muttest.sh <name> <prop> [quick|thorough] -- <shell command run inside the scratch worktree to mutate it>
# Creates a scratch worktree of /repo HEAD, mutates it, runs ./check <prop> against it via VERIF_REPO,
# prints the number of VIOLATION lines and the first few, then removes the worktree and the alt build output.
name=$1; prop=$2; tier=quick
shift 2
if [ "$1" != "--" ]; then tier=$1; shift; fi
shift
wt=/tmp/mut/$name
rm -rf $wt; mkdir -p /tmp/mut
git -C /repo worktree add -q --detach $wt HEAD || exit 9
( cd $wt && eval "$@" ) || { echo "MUTATION COMMAND FAILED"; git -C /repo worktree remove --force $wt; exit 9; }
( cd $wt && git diff --stat | tail -1 )
( cd $wt && GOFLAGS=-mod=mod GOPROXY=off GOSUMDB=off GOTOOLCHAIN=local go build ./... ) || { echo "MUTANT DOES NOT COMPILE"; git -C /repo worktree remove --force $wt; exit 9; }
cd /verif
out=$(VERIF_REPO=$wt ./check $prop $tier 2>&1)
rc=$?
echo "$out" | grep -c '^VIOLATION' | sed "s/^/[$name] $prop $tier rc=$rc VIOLATION lines: /"
echo "$out" | grep -A1 '^VIOLATION' | grep -v '^--' | head -6 | cut -c1-300
echo "$out" | grep -E "HARNESS-ERROR|KNOWN-FINDING|BUILD FAILED" | head -3 | cut -c1-300; [ $rc -ne 0 ] && [ $(echo "$out" | grep -c "^VIOLATION") -eq 0 ] && echo "$out" | tail -15
tag=$(python3 -c "import hashlib,os;print(hashlib.sha1(os.path.abspath('$wt').encode()).hexdigest()[:8])")
rm -rf /verif/run/alt-$tag /verif/bin/alt-$tag
git -C /repo worktree remove --force $wt
