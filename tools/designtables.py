#!/usr/bin/env python3
"""Rewrites the generated tables of DESIGN.md (between <!-- X-BEGIN --> / <!-- X-END --> markers):
FINDINGS from KNOWN_FINDINGS.txt, SEEDED from seeded/*/meta.json + seeded/NOTES.json."""
import json, glob, os, re, subprocess
root = '/verif'
notes = json.load(open(root + '/seeded/NOTES.json'))
tbl = subprocess.run(['python3', root + '/tools/findings_table.py'], stdout=subprocess.PIPE, stderr=subprocess.DEVNULL, text=True).stdout
rows = ["| seeded change | property | what it breaks / what it needs to manifest | confirmed (builds, existing tests pass, demo fails with / passes without) | caught by | note |", "|---|---|---|---|---|---|"]
n = det = 0
for d in sorted(glob.glob(root + '/seeded/*/meta.json')):
    sid = os.path.basename(os.path.dirname(d))
    m = json.load(open(d))
    v = m.get('verification', {})
    n += 1
    ok = v.get('builds') is True and v.get('existing_tests', {}).get('ok') and str(v.get('demo_clean', '')).startswith('pass') and str(v.get('demo_patched', '')).startswith('fails')
    chk = v.get('check', {})
    first = (chk.get('first') or [''])[0]
    first = re.sub(r'\s+', ' ', first)[:160].replace('|', '/')
    caught = ('`%s` exit %s, %d VIOLATION lines; e.g. %s' % (chk.get('cmd', '').split('./check ')[-1], chk.get('exit'), chk.get('violation_lines', 0), first)) if v.get('detected') else '**not caught** by `%s`' % chk.get('cmd', '').split('./check ')[-1]
    rc = m.get('recheck')
    if rc and not v.get('detected'):
        rfirst = re.sub(r'\s+', ' ', (rc.get('first') or [''])[0])[:160].replace('|', '/')
        if rc.get('detected'):
            caught = 'escaped the first version; after strengthening `%s` exit %s, %d VIOLATION lines; e.g. %s' % (rc.get('cmd', '').split('./check ')[-1], rc.get('exit'), rc.get('violation_lines', 0), rfirst)
        else:
            caught += '; still not caught after strengthening (`%s`)' % rc.get('cmd', '').split('./check ')[-1]
    det += 1 if (v.get('detected') or (rc or {}).get('detected')) else 0
    what = (m.get('title') or m.get('what_it_breaks', ''))[:200].replace('|', '/').replace('\n', ' ')
    need = (m.get('needs_to_manifest', '') or '')[:260].replace('|', '/').replace('\n', ' ')
    rows.append("| `%s` | %s | %s — *needs:* %s | %s | %s | %s |" % (sid, m.get('property', ''), what, need, 'yes' if ok else 'partly: see meta.json', caught, notes.get(sid, '')))
seeded = "\n".join(rows) + "\n\n%d seeded changes filed, %d caught by the registered quick checks (as of the last run of tools/designtables.py).\n" % (n, det)
p = root + '/DESIGN.md'
s = open(p).read()
for name, body in (('FINDINGS', tbl), ('SEEDED', seeded)):
    b, e = '<!-- %s-BEGIN -->' % name, '<!-- %s-END -->' % name
    if b in s:
        s = s[:s.index(b) + len(b)] + "\n" + body + s[s.index(e):]
open(p, 'w').write(s)
print("seeded: %d, caught: %d" % (n, det))
