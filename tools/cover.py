#!/usr/bin/env python3
"""Development tool: which library code do the workloads of a check actually execute?
usage: tools/cover.py CNN [quick|thorough] [pkg-substring ...]
Builds the property's children with -cover -coverpkg=github.com/emmansun/gmsm/..., runs the check (VERIF_COVER=1,
separate bin/run directories, evidence not touched), merges the counters of all children and prints, for the packages of
the property's anchor files (or the given package substrings): statement coverage per file, and every function with
uncovered blocks (line ranges).  Assembly is not instrumented (the Go wrappers are).  Not a verdict: a guide to where a
defect could hide from the workloads.  Writes run/cover/<CNN>.txt."""
import json, os, re, subprocess, sys, shutil, collections
pid = sys.argv[1]
tier = sys.argv[2] if len(sys.argv) > 2 and sys.argv[2] in ("quick", "thorough") else "quick"
subs = [a for a in sys.argv[2:] if a not in ("quick", "thorough", "-a", "-r")]
ALL = "-a" in sys.argv        # -a: every file of the packages, not only the anchor files
REPORT_ONLY = "-r" in sys.argv  # -r: re-print from the profile of the last run
root = "/verif"
env = dict(os.environ, VERIF_COVER="1", GOFLAGS="-mod=mod", GOPROXY="off", GOSUMDB="off", GOTOOLCHAIN="local")
cov = root + "/run/cover/covdata/" + pid
prof = root + "/run/cover/%s.prof" % pid
if not REPORT_ONLY:
    shutil.rmtree(cov, ignore_errors=True)
    p = subprocess.run(["./check", pid, tier], cwd=root, env=env, stdout=subprocess.PIPE, stderr=subprocess.STDOUT, text=True)
    print("check exit", p.returncode, p.stdout[-300:] if p.returncode else "")
    subprocess.run(["go", "tool", "covdata", "textfmt", "-i=" + cov, "-o=" + prof], check=True, env=env, cwd=root + "/harness")
props = {json.loads(l)["id"]: json.loads(l) for l in open(root + "/properties.jsonl")}
anchors = props[pid]["anchors"]["files"]
if not subs:
    subs = sorted({os.path.dirname(a) for a in anchors})
blocks = collections.defaultdict(dict)   # file -> (range) -> (stmts, count)
for line in open(prof):
    m = re.match(r"github.com/emmansun/gmsm/(\S+):(\d+)\.(\d+),(\d+)\.(\d+) (\d+) (\d+)", line)
    if not m:
        continue
    f, a, b, c, d, n, cnt = m.group(1), *map(int, m.groups()[1:])
    k = (a, b, c, d)
    old = blocks[f].get(k, (n, 0))
    blocks[f][k] = (n, old[1] + cnt)
out = []
tot = cv = 0
for f in sorted(blocks):
    if not any(os.path.dirname(f) == s or (s and s in f) for s in subs):
        continue
    if f.endswith("_verif.go") or f.startswith("verifhook") or "dispatch_verif" in f:
        continue
    if not ALL and f not in anchors and not any(s2 in f for s2 in sys.argv[2:] if s2.endswith(".go")):
        continue
    t = sum(n for n, _ in blocks[f].values())
    c = sum(n for n, k in blocks[f].values() if k)
    tot += t
    cv += c
    unc = sorted(k for k, (n, cnt) in blocks[f].items() if cnt == 0)
    out.append("%-48s %5d/%5d stmts %5.1f%%%s" % (f, c, t, 100.0 * c / max(t, 1), "  *anchor*" if f in anchors else ""))
    # group uncovered blocks by enclosing function (cheap: nearest preceding 'func ' line)
    try:
        src = open("/repo/" + f).read().split("\n")
    except OSError:
        continue
    funcs = [(i + 1, re.sub(r"\s*\{\s*$", "", l)[:90]) for i, l in enumerate(src) if l.startswith("func ")]
    byf = collections.OrderedDict()
    for (a, b, c2, d) in unc:
        fn = "?"
        for ln, name in funcs:
            if ln <= a:
                fn = name
        byf.setdefault(fn, []).append("%d-%d" % (a, c2) if a != c2 else "%d" % a)
    for fn, rs in byf.items():
        out.append("      %s: %s" % (fn, " ".join(rs[:14]) + (" ..." if len(rs) > 14 else "")))
out.append("TOTAL %s %s: %d/%d statements of %s covered (%.1f%%)" % (pid, tier, cv, tot, ",".join(subs), 100.0 * cv / max(tot, 1)))
txt = "\n".join(out)
open(root + "/run/cover/%s.txt" % pid, "w").write(txt + "\n")
print(txt)
shutil.rmtree(cov, ignore_errors=True)
