#!/usr/bin/env python3
"""Mutation sweep: a development monitor of the monitors (no part of any registered check).

usage: tools/mutsweep.py CNN [--max N] [--slots K] [--seed S] [--files a.go,b.go] [--kinds rel,ifskip,...]
                             [--configs avx2,purego] [--variants asm,purego] [--tier quick]

For the Go anchor files of property CNN (properties.jsonl) – or the files given – tools/gomut enumerates small
source mutations (relational/arithmetic operator swaps, integer literals +-1, dropped guard `if`, inverted
conditions, deleted call / assignment / increment / defer statements).  A deterministic sample of N of them is
applied one at a time to a scratch worktree of /repo HEAD and `./check CNN <tier>` is run against that worktree
(VERIF_REPO), restricted to a few build variants / dispatch configurations so that hundreds of mutants fit.
A mutant the check does not flag is then run against the package's own tests and those of its direct importers:
  caught      the check printed a VIOLATION line
  survivor    neither the check nor the existing tests notice it       <- a gap (or an equivalent mutant): look at it
  tests-only  the existing tests notice it, the check does not        <- weaker gap
  nocompile   the mutant does not compile
Results are appended to run/mutsweep/CNN.jsonl (one JSON object per mutant); finished mutants are skipped on restart.
"""
import argparse, hashlib, json, os, random, re, shutil, subprocess, sys, threading, time

ROOT = os.path.dirname(os.path.dirname(os.path.abspath(__file__)))
ENV = dict(os.environ, GOFLAGS="-mod=mod", GOPROXY="off", GOSUMDB="off", GOTOOLCHAIN="local")
KNOWN_BASE_FAIL = {"TestSign", "TestSignWithDigest", "TestSignWithOpenSSLAndVerify"}
ap = argparse.ArgumentParser()
ap.add_argument("prop")
ap.add_argument("--max", type=int, default=40)
ap.add_argument("--slots", type=int, default=2)
ap.add_argument("--seed", type=int, default=1)
ap.add_argument("--files", default="")
ap.add_argument("--kinds", default="")
ap.add_argument("--funcs", default="", help="regular expression on the function name")
ap.add_argument("--configs", default="avx2,purego")
ap.add_argument("--variants", default="")
ap.add_argument("--tier", default="quick")
ap.add_argument("--jobs", type=int, default=0)
ap.add_argument("--redo", action="store_true", help="run the recorded survivors / tests-only mutants of this property again (after a strengthening)")
ap.add_argument("--asm", action="store_true", help="mutate the amd64 assembly files (.s) instead of the Go files: immediates +-1, displacements +8, "
                "flipped jump conditions, deleted instructions; every dispatch configuration of the asm variant is run")
a = ap.parse_args()
prop = a.prop.upper()
props = {json.loads(l)["id"]: json.loads(l) for l in open(os.path.join(ROOT, "properties.jsonl"))}
allf = a.files.split(",") if a.files else props[prop]["anchors"]["files"]
if a.asm:
    files = [f for f in allf if f.endswith("amd64.s")]
else:
    files = [f for f in allf if f.endswith(".go") and not f.endswith("_test.go")]
files = [f for f in files if os.path.exists(os.path.join("/repo", f))]
GOMUT = os.path.join(ROOT, "bin", "gomut")
if not os.path.exists(GOMUT):
    subprocess.run(["go", "build", "-o", GOMUT, "."], cwd=os.path.join(ROOT, "tools", "gomut"), env=ENV, check=True)


def sh(cmd, cwd=None, env=None, timeout=3600):
    try:
        p = subprocess.run(cmd, shell=True, cwd=cwd, env=env or ENV, stdout=subprocess.PIPE, stderr=subprocess.STDOUT, text=True, timeout=timeout)
        return p.returncode, p.stdout
    except subprocess.TimeoutExpired as e:
        return 124, (e.stdout or "") if isinstance(e.stdout, str) else ""


def constraint(path):
    for line in open(path, errors="replace"):
        if line.startswith("//go:build"):
            return line[len("//go:build"):].strip()
        if line.startswith("package "):
            break
    return ""


JFLIP = {"JE": "JNE", "JNE": "JE", "JEQ": "JNE", "JZ": "JNZ", "JNZ": "JZ", "JB": "JBE", "JBE": "JB", "JA": "JAE", "JAE": "JA", "JL": "JLE", "JLE": "JL",
         "JG": "JGE", "JGE": "JG", "JCC": "JCS", "JCS": "JCC", "JLT": "JLE", "JGT": "JGE", "JHI": "JHS", "JLS": "JLO", "JC": "JNC", "JNC": "JC"}


def asm_sites(path):
    """text-level mutation sites of a Go assembly file: (line number, kind, original line, replacement line)"""
    out = []
    lines = open(path, errors="replace").read().split("\n")
    fn = ""
    for ln, line in enumerate(lines):
        code = line.split("//")[0]
        m = re.match(r"\s*TEXT\s+([^\s,(]+)", code)
        if m:
            fn = m.group(1)
            continue
        m = re.match(r"#define\s+(\w+)", code)
        if m:
            fn = "macro " + m.group(1)
        st = code.strip().rstrip("\\").strip().rstrip(";")
        if not st or st.startswith(("#", "DATA", "GLOBL", "TEXT")) or st.endswith(":"):
            continue
        op = st.split()[0]
        if not re.match(r"^[A-Z][A-Z0-9]+$", op):
            continue
        cand = []
        if op in JFLIP:
            cand.append(("jflip", re.sub(r"\b%s\b" % op, JFLIP[op], line, 1)))
        else:
            for m in re.finditer(r"\$(0x[0-9a-fA-F]+|\d+)\b", code):
                v = int(m.group(1), 0)
                for d, k in ((1, "imm+1"), (-1, "imm-1")):
                    if v + d >= 0:
                        cand.append((k, line[:m.start()] + "$" + str(v + d) + line[m.end():]))
            for m in re.finditer(r"(?<![\w$.])(-?\d+)\((?!SB|FP|PC)", code):
                cand.append(("disp+8", line[:m.start()] + str(int(m.group(1)) + 8) + line[m.end(1):]))
                cand.append(("disp+16", line[:m.start()] + str(int(m.group(1)) + 16) + line[m.end(1):]))
            if op not in ("RET", "JMP", "CALL", "VZEROUPPER", "PUSHQ", "POPQ", "NOP") and not op.startswith("J"):
                cont = "; \\" if code.rstrip().endswith("\\") else ""
                cand.append(("delinsn", re.match(r"\s*", line).group(0) + "NOP" + cont))
        for k, rep in cand:
            out.append(dict(line=ln + 1, kind=k, func=fn, orig=line.strip()[:120], repl=rep.strip()[:140], newline=rep))
    for i, s_ in enumerate(out):
        s_["id"] = i
    return out


sites = []
for f in files:
    if f.endswith(".s"):
        for s in asm_sites(os.path.join("/repo", f)):
            s["file"] = f
            sites.append(s)
        continue
    rc, out = sh("%s -list %s" % (GOMUT, os.path.join("/repo", f)))
    for line in out.splitlines():
        try:
            s = json.loads(line)
        except ValueError:
            continue
        s["file"] = f
        sites.append(s)
if a.kinds:
    ks = set(a.kinds.split(","))
    sites = [s for s in sites if s["kind"] in ks]
if a.funcs:
    rx = re.compile(a.funcs)
    sites = [s for s in sites if rx.search(s["func"])]
rnd = random.Random(a.seed * 1000003 + int(prop[1:]))
rnd.shuffle(sites)
# at most one mutant per (file, line) and a fair share per file
seen, per_file, picked = set(), {}, []
quota = max(3, (a.max + len(files) - 1) // max(1, len(files)) * 2)
for s in sites:
    k = (s["file"], s["line"])
    if k in seen or per_file.get(s["file"], 0) >= quota:
        continue
    seen.add(k)
    per_file[s["file"]] = per_file.get(s["file"], 0) + 1
    picked.append(s)
    if len(picked) >= a.max:
        break
outdir = os.path.join(ROOT, "run", "mutsweep")
os.makedirs(outdir, exist_ok=True)
outpath = os.path.join(outdir, prop + ("-asm" if a.asm else "") + ".jsonl")
done = set()
if os.path.exists(outpath):
    for line in open(outpath):
        try:
            r = json.loads(line)
            done.add((r["file"], r["id"]))
        except ValueError:
            pass
todo = [s for s in picked if (s["file"], s["id"]) not in done]
if a.redo:
    last = {}
    for line in open(outpath):
        r = json.loads(line)
        last[(r["file"], r["id"])] = r
    want = {k for k, r in last.items() if r["result"] in ("survivor", "tests-only")}
    todo = [s for s in sites if (s["file"], s["id"]) in want]
print("%s: %d sites in %d files, %d picked, %d to do" % (prop, len(sites), len(files), len(picked), len(todo)), flush=True)
lock = threading.Lock()
it = iter(todo)
njobs = a.jobs or max(2, 16 // a.slots)


def importers(wt, pkgdir):
    pk = "github.com/emmansun/gmsm/" + pkgdir
    rc, out = sh("go list -f '{{.ImportPath}} {{join .Imports \" \"}} {{join .TestImports \" \"}}' ./...", cwd=wt)
    deps = {pk}
    for line in out.splitlines():
        parts = line.split()
        if parts and pk in parts[1:]:
            deps.add(parts[0])
    return " ".join("./" + d.replace("github.com/emmansun/gmsm/", "") for d in sorted(deps) if d.startswith("github.com/emmansun/gmsm"))


def worker(k):
    wt = "/tmp/ms/%s/s%d" % (prop.lower(), k)
    shutil.rmtree(wt, ignore_errors=True)
    os.makedirs(os.path.dirname(wt), exist_ok=True)
    rc, out = sh("git -C /repo worktree prune; git -C /repo worktree add -q --detach %s HEAD" % wt)
    if rc != 0:
        print("worktree failed:", out)
        return
    tag = hashlib.sha1(os.path.abspath(wt).encode()).hexdigest()[:8]
    try:
        while True:
            with lock:
                s = next(it, None)
            if s is None:
                break
            t0 = time.time()
            f = s["file"]
            sh("git checkout -q -- . && git clean -fdq", cwd=wt)
            if f.endswith(".s"):
                ls_ = open(os.path.join("/repo", f), errors="replace").read().split("\n")
                ls_[s["line"] - 1] = s["newline"]
                rc, mutated = 0, "\n".join(ls_)
            else:
                rc, mutated = sh("%s -apply %d %s" % (GOMUT, s["id"], os.path.join("/repo", f)))
            res = dict(s, prop=prop)
            res.pop("newline", None)
            if rc != 0:
                continue
            open(os.path.join(wt, f), "w").write(mutated)
            cons = constraint(os.path.join(wt, f))
            pure_only = bool(re.search(r"(^|[^!\w])purego", cons)) and "!purego" not in cons
            asm_only = "!purego" in cons or f.endswith(".s")
            variants = a.variants
            if not variants:
                if prop == "C20":
                    variants = "race-purego" if pure_only else ("race" if asm_only else "race,race-purego")
                else:
                    variants = "purego" if pure_only else ("asm" if asm_only else "asm,purego")
            if not a.variants and re.search(r"(^|[^!\w])plugin", cons):
                variants = "plugin"
            pkgdir = os.path.dirname(f)
            benv = dict(ENV)
            if pure_only:
                benv["GOFLAGS"] = "-mod=mod -tags=purego"
            rc, out = sh("go build ./%s/" % pkgdir, cwd=wt, env=benv)
            if rc != 0:
                res["result"] = "nocompile"
            else:
                e2 = dict(os.environ, VERIF_REPO=wt, VERIF_ONLY_VARIANTS=variants, VERIF_ONLY_CONFIGS=("" if a.asm and a.configs == "avx2,purego" else a.configs), VERIF_JOBS=str(njobs), VERIF_JOB_WALL="600")
                rc, out = sh("./check %s %s" % (prop, a.tier), cwd=ROOT, env=e2, timeout=3000)
                lines = out.splitlines()
                idx = [i for i, l in enumerate(lines) if l.startswith("VIOLATION")]
                res["stage"] = "restricted"
                if not idx and not (any(l.startswith("BUILD FAILED") for l in lines) or "does not build" in out):
                    # second stage: every variant and configuration of the plan (the code may belong to one dispatch tier only)
                    e2.pop("VERIF_ONLY_VARIANTS"); e2.pop("VERIF_ONLY_CONFIGS")
                    rc, out = sh("./check %s %s" % (prop, a.tier), cwd=ROOT, env=e2, timeout=3000)
                    lines = out.splitlines()
                    idx = [i for i, l in enumerate(lines) if l.startswith("VIOLATION")]
                    res["stage"] = "full"
                res["check_rc"] = rc
                res["violations"] = len(idx)
                if idx:
                    res["result"] = "caught"
                    res["first"] = lines[idx[0] + 1][:300] if idx[0] + 1 < len(lines) else ""
                elif any(l.startswith("BUILD FAILED") for l in lines) or "does not build" in out:
                    res["result"] = "nocompile"
                else:
                    if rc not in (0, 2):
                        res["note"] = out[-400:]
                    pk = importers(wt, pkgdir)
                    rc, tout = sh("go test -count=1 -vet=off -timeout 15m %s" % pk, cwd=wt, timeout=1200)
                    fails = set(re.findall(r"^--- FAIL: (\w+)", tout, re.M)) - KNOWN_BASE_FAIL
                    if fails or (rc != 0 and not re.findall(r"^--- FAIL", tout, re.M)):
                        res["result"] = "tests-only"
                        res["tests_failed"] = sorted(fails)[:6] or [tout[-200:]]
                    else:
                        res["result"] = "survivor"
            res["secs"] = round(time.time() - t0, 1)
            with lock:
                with open(outpath, "a") as fo:
                    fo.write(json.dumps(res) + "\n")
                print("[%s] %-10s %s:%d %s %s `%s` -> `%s` (%s) %.0fs" % (prop, res["result"], f, s["line"], s["kind"], s["func"], s["orig"][:50].replace("\n", " "),
                                                                     s["repl"][:50].replace("\n", " "), res.get("first", "")[:80], res["secs"]), flush=True)
    finally:
        shutil.rmtree(os.path.join(ROOT, "run", "alt-" + tag), ignore_errors=True)
        shutil.rmtree(os.path.join(ROOT, "bin", "alt-" + tag), ignore_errors=True)
        sh("git -C /repo worktree remove --force %s" % wt)


ths = [threading.Thread(target=worker, args=(k,)) for k in range(a.slots)]
for t in ths:
    t.start()
for t in ths:
    t.join()
# summary
tot = {}
for line in open(outpath):
    r = json.loads(line)
    tot[r["result"]] = tot.get(r["result"], 0) + 1
print(prop, "totals:", tot)
