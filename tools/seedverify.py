#!/usr/bin/env python3
"""Verifies one seeded change and files it under /verif/seeded/<id>/.
usage: tools/seedverify.py <dir with patch.diff, meta.json, demo> <seed-id> <property> [quick|thorough]
Steps (all in a scratch worktree of /repo HEAD under /tmp/sv/<id>, removed afterwards):
  1 clean tree: demo passes         2 patch applies, go build ./... ok
  3 existing tests of the touched packages and their importers pass (pkcs7's three known SHA-1 failures ignored)
  4 demo fails with the patch       5 VERIF_REPO=<wt> ./check <prop> <tier>: VIOLATION expected
Writes seeded/<id>/{patch.diff, demo*, meta.json (original + 'verification' block)}."""
import json, os, shutil, subprocess, sys, glob, hashlib, re

src, sid, prop = sys.argv[1], sys.argv[2], sys.argv[3]
tier = sys.argv[4] if len(sys.argv) > 4 else "quick"
wt = "/tmp/sv/" + sid
env = dict(os.environ, GOFLAGS="-mod=mod", GOPROXY="off", GOSUMDB="off", GOTOOLCHAIN="local")
KNOWN_BASE_FAIL = {"TestSign", "TestSignWithDigest", "TestSignWithOpenSSLAndVerify"}


def sh(cmd, cwd=None, e=None, timeout=3600):
    p = subprocess.run(cmd, shell=True, cwd=cwd, env=e or env, stdout=subprocess.PIPE, stderr=subprocess.STDOUT, text=True, timeout=timeout)
    return p.returncode, p.stdout


meta = json.load(open(os.path.join(src, "meta.json")))
shutil.rmtree(wt, ignore_errors=True)
os.makedirs("/tmp/sv", exist_ok=True)
rc, out = sh("git -C /repo worktree prune; git -C /repo worktree add -q --detach %s HEAD" % wt)
assert rc == 0, out
res = {"repo_head": sh("git -C /repo rev-parse --short HEAD")[1].strip()}
try:
    demos = [f for f in os.listdir(src) if f not in ("patch.diff", "meta.json")]
    ddir = meta.get("demo_package_dir", "").strip("/").replace("/tmp/seed/", "")
    ddir = re.sub(r"^(\./)?", "", ddir)
    dcmd = meta.get("demo_command", "")
    denv = dict(env)
    seen_env = set()
    _envtxt = meta.get("demo_env", "") or ""
    for _m in re.finditer(r"\b([A-Z][A-Z0-9_]+)=((?:[a-z0-9_.]+=[a-z0-9]+,?)+|[^\s;,)]+)", _envtxt):
        # "must run without GODEBUG=...", "do NOT set GODEBUG=..." name a setting that is NOT part of the demonstration
        if re.search(r"\b(without|not|no|never|unset|disappears with|passes with)\b[^=]{0,70}$", _envtxt[max(0, _m.start() - 90):_m.start()], re.I):
            continue
        kv = (_m.group(1), _m.group(2).rstrip(",."))
        if kv[0] not in ("GOFLAGS", "GOPROXY", "GOSUMDB", "GOTOOLCHAIN") and kv[0] not in seen_env:
            # free-text demo_env may list alternatives ("or GODEBUG=...", "passes with GODEBUG=..."): the first one counts
            denv[kv[0]] = kv[1]
            seen_env.add(kv[0])
    # the recorded command may carry free text after the command proper: keep the first command only
    dcmd = re.split(r"\s{2,}\(|\s+\(also|\s+#", dcmd)[0].strip()
    # keep only the `go test/run ...` part: the tool copies the demo files itself and runs in the worktree
    m_go = re.search(r"((?:[A-Z][A-Z0-9_]*=\S+\s+)*go (?:test|run)\b.*)$", dcmd)
    if m_go:
        dcmd = m_go.group(1)

    def put_demo():
        for f in demos:
            p = os.path.join(src, f)
            if os.path.isdir(p):
                shutil.copytree(p, os.path.join(wt, ddir, f), dirs_exist_ok=True)
            else:
                shutil.copy(p, os.path.join(wt, ddir, f))

    def rm_demo():
        for f in demos:
            p = os.path.join(wt, ddir, f)
            if os.path.isdir(p):
                shutil.rmtree(p, ignore_errors=True)
            elif os.path.exists(p):
                os.remove(p)

    def run_demo():
        cmd = dcmd
        # strip leading env assignments and cd from the recorded command; run in the worktree
        cmd = re.sub(r"^cd \S+ *(&&|;) *", "", cmd)
        return sh(cmd, cwd=wt, e=denv, timeout=1800)

    put_demo()
    rc, out = run_demo()
    res["demo_clean"] = "pass" if rc == 0 else "FAIL(rc=%d): %s" % (rc, out[-400:])
    rm_demo()
    rc, out = sh("git apply %s" % os.path.join(os.path.abspath(src), "patch.diff"), cwd=wt)
    res["patch_applies"] = rc == 0 or out[-300:]
    rc, out = sh("go build ./...", cwd=wt)
    res["builds"] = rc == 0 or out[-300:]
    touched = sorted({os.path.dirname(l.split()[-1]) for l in sh("git diff --stat --name-only", cwd=wt)[1].split() if l.endswith((".go", ".s"))})
    res["touched_packages"] = touched
    # importers
    pk = ["github.com/emmansun/gmsm/" + t for t in touched]
    rc, out = sh("go list -f '{{.ImportPath}} {{join .Imports \" \"}} {{join .TestImports \" \"}}' ./...", cwd=wt)
    deps = set(pk)
    for line in out.splitlines():
        parts = line.split()
        if parts and any(p in parts[1:] for p in pk):
            deps.add(parts[0])
    pkgs = " ".join("./" + d.replace("github.com/emmansun/gmsm/", "") for d in sorted(deps) if d.startswith("github.com/emmansun/gmsm"))
    rc, out = sh("go test -count=1 -vet=off -timeout 30m %s" % pkgs, cwd=wt)
    fails = set(re.findall(r"^--- FAIL: (\w+)", out, re.M))
    res["existing_tests"] = dict(packages=pkgs, failed=sorted(fails - KNOWN_BASE_FAIL), ok=not (fails - KNOWN_BASE_FAIL))
    if rc != 0 and not fails:
        res["existing_tests"]["note"] = out[-500:]
        res["existing_tests"]["ok"] = False
    put_demo()
    rc, out = run_demo()
    res["demo_patched"] = "fails (as required)" if rc != 0 else "PASSES (demo does not show the defect)"
    res["demo_patched_tail"] = out[-600:]
    rm_demo()
    e2 = dict(os.environ, VERIF_REPO=wt)
    rc, out = sh("./check %s %s" % (prop, tier), cwd="/verif", e=e2, timeout=7200)
    viol = [l for l in out.splitlines() if l.startswith("VIOLATION")]
    idx = [i for i, l in enumerate(out.splitlines()) if l.startswith("VIOLATION")]
    lines = out.splitlines()
    res["check"] = dict(cmd="VERIF_REPO=<scratch worktree with the patch> ./check %s %s" % (prop, tier), exit=rc, violation_lines=len(viol),
                        first=[lines[i + 1][:500] if i + 1 < len(lines) else "" for i in idx[:3]],
                        harness_errors=[l[:300] for l in lines if l.startswith("HARNESS-ERROR")][:3])
    res["detected"] = rc == 1 and len(viol) > 0
finally:
    tag = hashlib.sha1(os.path.abspath(wt).encode()).hexdigest()[:8]
    shutil.rmtree("/verif/run/alt-" + tag, ignore_errors=True)
    shutil.rmtree("/verif/bin/alt-" + tag, ignore_errors=True)
    sh("git -C /repo worktree remove --force %s" % wt)
dst = "/verif/seeded/" + sid
os.makedirs(dst, exist_ok=True)
for f in os.listdir(src):
    p = os.path.join(src, f)
    if os.path.isdir(p):
        shutil.copytree(p, os.path.join(dst, f), dirs_exist_ok=True)
    else:
        shutil.copy(p, dst)
meta["verification"] = res
json.dump(meta, open(os.path.join(dst, "meta.json"), "w"), indent=1)
print(json.dumps(res, indent=1)[:3000])
