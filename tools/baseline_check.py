#!/usr/bin/env python3
"""Runs the repository's test suite with the verif guard OFF and compares with /root/.vp/BASELINE.json:
every test listed in stable_pass must pass. usage: tools/baseline_check.py [repo_dir]"""
import json, subprocess, sys, os
repo = sys.argv[1] if len(sys.argv) > 1 else "/repo"
base = json.load(open("/root/.vp/BASELINE.json"))
want = set(base["stable_pass"])
env = dict(os.environ, GOFLAGS="-mod=mod", GOPROXY="off", GOSUMDB="off", GOTOOLCHAIN="local")
p = subprocess.run(["go", "test", "-json", "-vet=off", "-count=1", "-timeout", "40m", "./..."], cwd=repo, env=env,
                   stdout=subprocess.PIPE, stderr=subprocess.STDOUT, text=True)
passed, failed = set(), set()
for line in p.stdout.splitlines():
    try:
        r = json.loads(line)
    except ValueError:
        continue
    if r.get("Test") and r.get("Action") in ("pass", "fail"):
        k = "%s::%s" % (r["Package"], r["Test"])
        (passed if r["Action"] == "pass" else failed).add(k)
missing = sorted(want - passed)
print("baseline stable_pass: %d, passed now: %d, failed now: %d, stable tests not passing: %d" % (len(want), len(passed), len(failed), len(missing)))
for k in missing[:50]:
    print("  NOT PASSING:", k, "(failed)" if k in failed else "(not run)")
print("failed (all):", sorted(failed)[:20])
sys.exit(1 if missing else 0)
