#!/usr/bin/env python3
"""Runs ANOTHER property's check against a filed seeded change and files the result as seeded/<id>-via-<prop>/ (copy of
patch, demo and meta with the check block replaced). usage: tools/via.py <seed-id> <PROP> [quick|thorough]"""
import json, os, shutil, subprocess, sys, hashlib
sid, prop = sys.argv[1], sys.argv[2]
tier = sys.argv[3] if len(sys.argv) > 3 else "quick"
src = "/verif/seeded/" + sid
dst = "/verif/seeded/%s-via-%s" % (sid, prop.lower())
shutil.copytree(src, dst, dirs_exist_ok=True)
meta = json.load(open(dst + "/meta.json"))
meta.pop("recheck", None)
wt = "/tmp/via/" + sid + prop
shutil.rmtree(wt, ignore_errors=True)
os.makedirs("/tmp/via", exist_ok=True)
subprocess.run("git -C /repo worktree prune; git -C /repo worktree add -q --detach %s HEAD" % wt, shell=True, check=True)
try:
    if subprocess.run(["git", "apply", src + "/patch.diff"], cwd=wt).returncode != 0:
        subprocess.run("patch -p1 -F3 --no-backup-if-mismatch < %s/patch.diff" % src, shell=True, cwd=wt, check=True)
    p = subprocess.run("./check %s %s" % (prop, tier), shell=True, cwd="/verif", env=dict(os.environ, VERIF_REPO=wt),
                       stdout=subprocess.PIPE, stderr=subprocess.STDOUT, text=True)
    lines = p.stdout.splitlines()
    idx = [i for i, l in enumerate(lines) if l.startswith("VIOLATION")]
    v = meta.setdefault("verification", {})
    v["check"] = dict(cmd="VERIF_REPO=<scratch worktree with the patch> ./check %s %s" % (prop, tier), exit=p.returncode,
                      violation_lines=len(idx), first=[lines[i + 1][:500] for i in idx[:3] if i + 1 < len(lines)], harness_errors=[])
    v["detected"] = p.returncode == 1 and len(idx) > 0
finally:
    tag = hashlib.sha1(os.path.abspath(wt).encode()).hexdigest()[:8]
    shutil.rmtree("/verif/run/alt-" + tag, ignore_errors=True)
    shutil.rmtree("/verif/bin/alt-" + tag, ignore_errors=True)
    subprocess.run("git -C /repo worktree remove --force %s" % wt, shell=True)
json.dump(meta, open(dst + "/meta.json", "w"), indent=1)
print(sid, "via", prop, json.dumps(meta["verification"]["check"])[:500])
